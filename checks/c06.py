"""C06 — sniffing finds the name that is there and never alters or withholds payload."""
import json, os
from verifkit import read_lines

REQUIRED = ["DaeVerif.C06.Props." + n for n in (
    "tls_sni_found", "tls_sni_sound", "tls_total", "tls_record_total",
    "sniff_tcp_chunk_invariant", "normalize_ordinary_name", "relay_identity", "sniff_tcp_sound",
    "sniff_returns_by_deadline", "sniff_timed_refines",
    "http_host_found_partial", "http_host_sound", "sniff_tcp_http_one_read_partial",
    "quic_sni_sound", "reassembly_keeps_slices", "quic_flight_found", "quic_header_walk_roundtrip", "quic_datagram_found_partial",
    "udp_not_withheld_when_complete", "udp_flow_in_order",
    "udp_family_per_connection", "udp_family_nothing_held_behind_endpoint",
    "udp_family_release_is_total",
    "quic_early_answer_is_final", "quic_complete_means_complete", "quic_datagram_packets_loop",
)]


import re
_NONAME = re.compile(r"err:(na|nf|needmore|missing)\b")
_BADFRAME = re.compile(r"err:(eof|unknownframe|other:\S*)")


def canon(line):
    """What is compared between implementation and model.  The property knows "a name" / "no name" /
    "timed out" / "connection error": WHICH sniffing error says "no name" (not applicable, not found,
    need more, missing crypto) and which parse error rejects a frame is outside it; so are the
    internal fields printed after ' # '."""
    l = line.split(" # ", 1)[0]
    l = _NONAME.sub("err:none", l)
    if l.startswith("err:") or l.startswith("ok "):  # frames / uvar answers
        l = _BADFRAME.sub("err:bad", l)
    return l


def poison_pool_overlay(ctx):
    """Build the harnesses against a copy of the outbound module whose buffer pools overwrite every
    buffer that is handed back (pool.Put / pool.PutBuffer), so that a use of released memory
    (use-after-release) changes the bytes the harness compares.  The copy is made from the module the
    repo resolves to, one statement is inserted into each of the two functions, and /repo/go.mod is
    overlaid (not edited) with a directory `replace`."""
    import shutil
    from verifkit import sh, go_env, REPO
    try:
        rc, out, _ = sh(["go", "list", "-m", "-f", "{{.Dir}}", "github.com/daeuniverse/outbound"], cwd=REPO, env=go_env(), timeout=120)
        mod = out.strip().split("\n")[-1]
        dst = os.path.join(ctx.out, "outbound-poison")
        shutil.copytree(mod, dst)
        for root, dirs, files in os.walk(dst):
            for n in dirs + files:
                os.chmod(os.path.join(root, n), 0o755 if n in dirs else 0o644)
        f = os.path.join(dst, "pool", "bytes_buffer.go")
        src = open(f).read()
        hook = "func PutBuffer(buf *bytes.Buffer) {\n"
        assert hook in src
        open(f, "w").write(src.replace(hook, hook + "\tif b := buf.Bytes(); true {\n\t\tb = b[:cap(b)]\n\t\tfor i := range b {\n\t\t\tb[i] = 0xdd\n\t\t}\n\t}\n", 1))
        f = os.path.join(dst, "pool", "pool.go")
        src = open(f).read()
        hook = "func Put(buf []byte) {\n"
        assert hook in src
        open(f, "w").write(src.replace(hook, hook + "\tfor i := range buf[:cap(buf)] {\n\t\tbuf[:cap(buf)][i] = 0xdd\n\t}\n", 1))
        gomod = open(os.path.join(REPO, "go.mod")).read()
        # drop an existing replacement of the module, written as a line or inside a `replace ( … )` block
        lines = [l for l in gomod.split("\n")
                 if not (l.strip().startswith("replace github.com/daeuniverse/outbound ")
                         or (l.strip().startswith("github.com/daeuniverse/outbound ") and "=>" in l))]
        lines.append("replace github.com/daeuniverse/outbound => " + dst)
        alt = os.path.join(ctx.out, "go.mod.poison")
        open(alt, "w").write("\n".join(lines) + "\n")
        return {os.path.join(REPO, "go.mod"): alt}
    except Exception as e:  # module layout changed: the harness cannot be built as specified
        ctx.say("POOL-POISONING-FAILED (use-after-release of pooled buffers would be invisible):", repr(e))
        return None


def run(ctx):
    ctx.trusted += [
        "QUIC header protection + AEAD (AES-ECB/AES-GCM/HKDF of the Go standard library) as an oracle: "
        "a packet authenticates iff it is, bit for bit, a packet sealed by the harness' independent RFC 9001 encoder "
        "(answers supplied per op line; the real DecryptQuic_ is exercised on every such packet)",
        "scripted net.Conn of the harness (data / EOF / stall-until-deadline / reset events) stands for the socket; "
        "real-time behaviour of deadlines on kernel sockets is not covered",
        "Go Unicode case folding / white space (strings.ToLower, bytes.EqualFold, TrimSpace) for names or heads with bytes >= 0x80",
    ]
    ctx.prove(["DaeVerif.C06.Props"], ["DaeVerif.C06.Props"], ["DaeVerif/C06/*.lean"], extra_targets=["c06drv"])
    ctx.required_theorems(REQUIRED)

    poison = poison_pool_overlay(ctx)
    if poison is None:
        return 2
    ctx.cov["pool_poisoning"] = True
    binp = ctx.go_test_build("component/sniffing",
                             ["component/sniffing/c06_test.go", "component/sniffing/c06_gen_test.go",
                              "component/sniffing/c06_time_test.go"], "c06",
                             tags="", pkgname="sniffing", extra_overlay=poison)
    if not binp:
        return 2
    rc, out = ctx.run_harness(binp, "TestVerifC06")
    ops, impl, model = (os.path.join(ctx.out, "c06." + e) for e in ("ops", "impl", "model"))
    if rc != 0 or not os.path.exists(ops):
        ctx.say("HARNESS-FAILED", out[-3000:])
        return 2
    if not ctx.driver("c06drv", ops, model):
        ctx.proof_failures.append("model driver c06drv failed to run")
    # what follows " # " on an answer line is internal state (diagnostic only, see DESIGN §8)
    mism = ctx.diff_streams(ops, impl, model, "c06", canon=canon)
    diag = sum(1 for a, b in zip(read_lines(impl), read_lines(model)) if a != b and canon(a) == canon(b))
    ctx.cov["internal_state_differences_not_counted"] = max(diag, 0)
    for ln, op, im, mo in mism[:10]:
        ctx.report(f"implementation differs from proved model at line {ln}: impl `{im[:300]}` model `{mo[:300]}`",
                   {"stream": "c06", "line": ln, "op": op, "impl": im, "model": mo,
                    "replay": "VERIF_SEED=%d ./check C06 %s" % (ctx.seed, ctx.tier)})
    # property-level oracles evaluated by the harness on the implementation itself
    viol = os.path.join(ctx.out, "c06.viol")
    if os.path.exists(viol):
        for l in read_lines(viol)[:10]:
            ctx.report("property violated by the implementation: " + l[:600], {"finding": l,
                       "replay": "VERIF_SEED=%d ./check C06 %s" % (ctx.seed, ctx.tier)})
    # ---- the stream sniffer under virtual time (testing/synctest)
    rc, out = ctx.run_harness(binp, "TestVerifC06Timed")
    tops, timpl, tmodel = (os.path.join(ctx.out, "c06time." + e) for e in ("ops", "impl", "model"))
    if rc != 0 or not os.path.exists(tops):
        ctx.say("HARNESS-FAILED", out[-3000:])
        return 2
    if not ctx.driver("c06drv", tops, tmodel):
        ctx.proof_failures.append("model driver c06drv failed to run on c06time")
    for ln, op, im, mo in ctx.diff_streams(tops, timpl, tmodel, "c06time", canon=canon)[:10]:
        ctx.report(f"timed stream sniffer differs from proved model at line {ln}: impl `{im[:300]}` model `{mo[:300]}`",
                   {"stream": "c06time", "line": ln, "op": op, "impl": im, "model": mo,
                    "replay": "VERIF_SEED=%d ./check C06 %s" % (ctx.seed, ctx.tier)})
    tviol = os.path.join(ctx.out, "c06time.viol")
    if os.path.exists(tviol):
        for l in read_lines(tviol)[:10]:
            ctx.report("property violated by the implementation (timed): " + l[:600], {"finding": l,
                       "replay": "VERIF_SEED=%d ./check C06 %s" % (ctx.seed, ctx.tier)})
    tstats = json.load(open(os.path.join(ctx.out, "c06time.stats.json")))
    timed_ops = read_lines(tops)

    # ---- control side: the real handlePkt on one UDP flow
    gen_src = open(os.path.join(os.path.dirname(os.path.dirname(os.path.abspath(__file__))), "harness", "overlay", "component", "sniffing", "c06_gen_test.go")).read()
    gen_ctl = os.path.join(ctx.out, "c06_gen_control_test.go")
    open(gen_ctl, "w").write(gen_src.replace("package sniffing", "package control", 1))
    binc = ctx.go_test_build("control", ["control/c06_test.go", "control/c06_fam_test.go", gen_ctl], "c06flow", extra_overlay=poison)
    if not binc:
        return 2
    rc, out = ctx.run_harness(binc, "TestVerifC06Flow")
    fops, fimpl, fmodel = (os.path.join(ctx.out, "c06flow." + e) for e in ("ops", "impl", "model"))
    if rc != 0 or not os.path.exists(fops):
        ctx.say("HARNESS-FAILED", out[-3000:])
        return 2
    if not ctx.driver("c06drv", fops, fmodel):
        ctx.proof_failures.append("model driver c06drv failed to run on c06flow")
    for ln, op, im, mo in ctx.diff_streams(fops, fimpl, fmodel, "c06flow", canon=canon)[:10]:
        ctx.report(f"handlePkt differs from proved flow model at line {ln}: impl `{im[:300]}` model `{mo[:300]}`",
                   {"stream": "c06flow", "line": ln, "op": op, "impl": im, "model": mo,
                    "replay": "VERIF_SEED=%d ./check C06 %s" % (ctx.seed, ctx.tier)})
    fviol = os.path.join(ctx.out, "c06flow.viol")
    if os.path.exists(fviol):
        for l in read_lines(fviol)[:10]:
            ctx.report("property violated by the implementation (handlePkt): " + l[:600], {"finding": l,
                       "replay": "VERIF_SEED=%d ./check C06 %s" % (ctx.seed, ctx.tier)},
                       key="c06-udp-withheld-stranded-by-other-connection" if l.startswith("two QUIC connections") else None)
    fstats = json.load(open(os.path.join(ctx.out, "c06flow.stats.json")))
    # ---- control side, part 2: one flow FAMILY (several QUIC connections on one 4-tuple, dial / write faults)
    rc, out = ctx.run_harness(binc, "TestVerifC06Fam")
    mops, mimpl, mmodel = (os.path.join(ctx.out, "c06fam." + e) for e in ("ops", "impl", "model"))
    if rc != 0 or not os.path.exists(mops):
        ctx.say("HARNESS-FAILED", out[-3000:])
        return 2
    if not ctx.driver("c06drv", mops, mmodel):
        ctx.proof_failures.append("model driver c06drv failed to run on c06fam")
    for ln, op, im, mo in ctx.diff_streams(mops, mimpl, mmodel, "c06fam", canon=canon)[:10]:
        ctx.report(f"handlePkt differs from proved flow-family model at line {ln}: impl `{im[:300]}` model `{mo[:300]}`",
                   {"stream": "c06fam", "line": ln, "op": op, "impl": im, "model": mo,
                    "replay": "VERIF_SEED=%d ./check C06 %s" % (ctx.seed, ctx.tier)})
    mviol = os.path.join(ctx.out, "c06fam.viol")
    if os.path.exists(mviol):
        for l in read_lines(mviol)[:10]:
            ctx.report("property violated by the implementation (handlePkt, flow family): " + l[:600], {"finding": l,
                       "replay": "VERIF_SEED=%d ./check C06 %s" % (ctx.seed, ctx.tier)})
    mstats = json.load(open(os.path.join(ctx.out, "c06fam.stats.json")))
    fam_ops = read_lines(mops)
    # directed scenarios of open findings: reported under their key (KNOWN-FINDING while the key is listed
    # as open in known_findings.jsonl; a VIOLATION once it is listed as fixed and still reproduces)
    listed = {k.get("key") for k in ctx.known}
    for kn in (os.path.join(ctx.out, "c06.known"), os.path.join(ctx.out, "c06fam.known")):
        if not os.path.exists(kn):
            continue
        for l in read_lines(kn)[:10]:
            key, what = l.split(" ", 1)
            if key in listed:
                ctx.report("open finding reproduced: " + what[:500], {"finding": l}, key=key)
            else:
                ctx.say(f"NOTE proposed open finding {key} (not yet in known_findings.jsonl) reproduces: {what[:200]}")
                ctx.cov.setdefault("unlisted_open_findings", []).append(l[:300])
    opl = read_lines(ops)
    flow_ops = read_lines(fops)
    kinds = {}
    distinct = set()
    for op in opl:
        k = op.split(" ", 1)[0]
        kinds[k] = kinds.get(k, 0) + 1
        if k in ("tls", "rec", "tcp", "udp", "http", "frames", "qext"):
            distinct.add(op)
    # measured distribution of the implementation's answers per op kind
    outcomes = {}
    for op, im in zip(opl, read_lines(impl)):
        k = op.split(" ", 1)[0]
        a = im.split(" # ", 1)[0]
        if k == "tcp" and "res=" in a:
            a = [f for f in a.split() if f.startswith("res=")][0][4:]
        elif k == "udp" and len(a.split()) >= 2:
            a = a.split()[-2].split("/")[0] + ("+needmore" if a.split()[-2].endswith("/1") else "")
        elif k in ("chenc", "fenc", "henc", "frames", "uvar", "likely", "norm"):
            a = a.split(" ", 1)[0].split("=")[0] if k in ("chenc", "fenc", "henc") else a.split(" ", 1)[0]
        a = "ok" if a.startswith("ok") else a
        outcomes.setdefault(k, {})
        outcomes[k][a] = outcomes[k].get(a, 0) + 1
    ctx.cov["answer_distribution"] = outcomes
    stats = json.load(open(os.path.join(ctx.out, "c06.stats.json")))
    ctx.samples = stats["samples"][:4] + [o[:300] for o in opl[:3]] + [o[:300] for o in opl if o.startswith("udp ")][:2]
    ctx.cov["input_distribution"] = stats["counters"]
    ctx.cov["flow_distribution"] = fstats["counters"]
    kinds["pkt"] = len(flow_ops)
    distinct |= set(flow_ops)
    kinds["ttcp"] = len(timed_ops)
    distinct |= set(timed_ops)
    kinds["fam"] = len(fam_ops)
    distinct |= set(fam_ops)
    ctx.cov["family_distribution"] = {k: v for k, v in mstats["counters"].items() if k.startswith("fam.")}
    fam_model = read_lines(mmodel)
    hold = {}
    for l in fam_model:
        for f in l.split(" # ", 1)[-1].split():
            if f.startswith("holding="):
                hold[f] = hold.get(f, 0) + 1
    ctx.cov["family_sessions_holding_at_once"] = hold
    ctx.cov["timed_distribution"] = {k: v for k, v in tstats["counters"].items() if k.startswith("timed.")}
    ctx.cov["op_kinds"] = kinds
    # generator floors: an input class that stops being generated must not go unnoticed
    allc = dict(fstats["counters"]); allc.update(tstats["counters"]); allc.update(mstats["counters"]); allc.update(stats["counters"])
    allc["fam.holding>=2"] = sum(v for k, v in hold.items() if int(k.split("=")[1]) >= 2)
    allc["fam.connections>=2"] = sum(v for k, v in mstats["counters"].items() if k.startswith("fam.connections.") and k != "fam.connections.1")
    allc["hello.big.*"] = sum(v for k, v in stats["counters"].items() if k.startswith("hello.big."))
    floors = {"hello.big.*": 40, "http.cut_in_two": 150, "quic.compacted_then_reused": 25, "quic.version.v2": 40,
              "quic.version.draft29": 15, "quic.version.grease_version": 15, "quic.corrupt": 30, "quic.coalesced": 30,
              "tcp.data_with_eof_or_reset": 400, "tcp.read_size.1": 100, "tcp.stall_inserted": 100, "tcp.tail.rst": 100,
              "timed.answer.timeout": 60, "timed.trickle": 25, "timed.gap_near_deadline": 25, "timed.eof_after_part": 25,
              "timed.drain.async": 10, "flow.two_connections": 30, "flow.two_connections_two_or_more_held": 8,
              "flow.dial_failure.undecryptable_retransmitted": 10, "flow.dial_failure.valid_flight": 5,
              "flow.many_datagrams": 10, "flow.non_initial_after_two_or_more": 3, "quic.many_datagrams": 10,
              "tcp.writeto_real_tcpconn": 100,  # needs a loopback TCP listener (exit 2 without one)
              "flow.short_header_between": 8, "flow.with_noise_flows": 30,
              # flow family (a run slower than 400 ms is discarded, not compared: too many of them => exit 2)
              "fam.emitted": 120, "fam.connections>=2": 30, "fam.holding>=2": 5, "fam.with_dial_failures": 40,
              "fam.write_failure_injected": 20, "fam.same_dcid_two_scids": 5, "fam.domainless_endpoint_then_other_connection": 5,
              "fam.nosni_streak_under_dial_failures": 4, "fam.undecryptable_under_dial_failures": 4,
              "fam.dial_fails_at_completion_then_retransmit": 4, "fam.directed_uncacheable_dcid": 3, "fam.conn.uncacheable_dcid": 8, "fam.write_failure_after_earlier_writes": 10,
              "hello.two_sni_exts": 20, "hello.empty_last_ext": 40, "replay.short_sni_ext": 4}
    low = {k: (allc.get(k, 0), f) for k, f in floors.items() if allc.get(k, 0) < f}
    ctx.cov["generator_floors"] = floors
    if low:
        ctx.say("GENERATOR-FLOOR not reached (have, floor):", low)
        return 2
    ctx.assumptions = [
        "one ClientHello per TLS record (hellos fragmented over several records are out of the sniffer's scope)",
        "generated inputs (seeded): hellos up to 17 KB, QUIC flights of 1-4 packets or (large hellos) 6-18 datagrams of 1200 bytes, "
        "stream scripts <= ~70 reads; HTTP methods limited to the sixteen of common.IsValidHttpMethod (open finding c06-http-method-outside-list)",
        "needs a loopback TCP listener (127.0.0.1:0) for the *net.TCPConn branch of ConnSniffer.WriteTo; without one the check exits 2",
    ]
    return ctx.finish(rule="one op = one input to the real code and to the model: tls/rec (bytes -> name|error), "
                           "tcp (scripted reads + drain mode -> answer, buffer, relayed bytes, end), http, norm, "
                           "frames/qext/fenc (CRYPTO reassembly, locator, frame encoders), udp (datagram sequence -> per-datagram answer + kept datagrams), "
                           "pkt (datagram sequence through the real handlePkt -> what reaches the outbound after each, what is held, sniffed domain); "
                           "fam (history of one flow family through the real handlePkt: datagrams of several QUIC connections interleaved, "
                           "per-step dial fault -> what reaches the outbound after each step, what is held, sniffed domain); "
                           "distinct_nontrivial counts distinct tls/rec/tcp/udp/http/frames/qext op lines",
                      evaluations=len(opl) + len(flow_ops) + len(timed_ops) + len(fam_ops), distinct=len(distinct))
