// c03param: extracts, from /repo's CURRENT control/bpf_utils.go, the value fullLoadBpfObjects hands to the ELF
// variable `PARAM` (`constants := map[string]interface{}{"PARAM": struct{...}{...}}`) and writes the composite
// literal VERBATIM into a function of package control:
//
//	type verifC03ParamIn struct { TproxyPort, Dae0Ifindex, NetnsID uint32; PeerMac [6]byte;
//	        UseRedirectPeer, HasBpfGetCurrentTask uint8; SoMarkFromDae uint32 }
//	func verifC03ParamImage(in verifC03ParamIn) ([]byte, error)
//	    = the bytes spec.Variables["PARAM"].Set(<that literal>) stores (encoding/binary, native endian), with the
//	      literal's free variables bound to `in`: opts.BigEndianTproxyPort, netnsID, peerMac, useRedirectPeer,
//	      hasBpfGetCurrentTask, soMarkFromDae; the one expression that needs dae's network namespace
//	      (`GetDaeNetns()....`) is replaced by in.Dae0Ifindex.  Everything else — field order, field types, padding
//	      members, and in particular `uint32(os.Getpid())` — is production's own text.
//	var verifC03ParamFields = []string{...}   the literal's field names in declaration order
//
// FAILS CLOSED (exit 1 ⇒ the check reports TRANSLATOR-FAILED / exit 2): fullLoadBpfObjects or the "PARAM" entry
// is not found, the value is not a struct literal with key:value elements, or a value expression mentions an
// identifier that is not one of the known bindings.
//
// usage: go run main.go <repo>/control <outfile>
package main

import (
	"bytes"
	"fmt"
	"go/ast"
	"go/parser"
	"go/printer"
	"go/token"
	"os"
	"strconv"
	"strings"
)

func fail(msg string) {
	fmt.Fprintln(os.Stderr, "c03param: "+msg)
	os.Exit(1)
}

func main() {
	srcPath, out := os.Args[1]+"/bpf_utils.go", os.Args[2]
	src, err := os.ReadFile(srcPath)
	if err != nil {
		fail(err.Error())
	}
	fset := token.NewFileSet()
	f, err := parser.ParseFile(fset, srcPath, src, parser.ParseComments)
	if err != nil {
		fail(err.Error())
	}
	var fn *ast.FuncDecl
	for _, d := range f.Decls {
		if fd, ok := d.(*ast.FuncDecl); ok && fd.Name.Name == "fullLoadBpfObjects" && fd.Recv == nil && fd.Body != nil {
			fn = fd
		}
	}
	if fn == nil {
		fail("anchor moved: func fullLoadBpfObjects not found in bpf_utils.go")
	}
	var lit *ast.CompositeLit
	n := 0
	ast.Inspect(fn.Body, func(nd ast.Node) bool {
		kv, ok := nd.(*ast.KeyValueExpr)
		if !ok {
			return true
		}
		if bl, ok := kv.Key.(*ast.BasicLit); ok && bl.Kind == token.STRING {
			if s, _ := strconv.Unquote(bl.Value); s == "PARAM" {
				n++
				if cl, ok := kv.Value.(*ast.CompositeLit); ok {
					lit = cl
				}
			}
		}
		return true
	})
	if n != 1 || lit == nil {
		fail(fmt.Sprintf("anchor moved: expected exactly one \"PARAM\": struct{...}{...} entry in fullLoadBpfObjects, found %d", n))
	}
	st, ok := lit.Type.(*ast.StructType)
	if !ok {
		fail("the PARAM value is no longer an anonymous struct literal")
	}
	var fields []string
	for _, fl := range st.Fields.List {
		if len(fl.Names) == 0 {
			fail("embedded field in the PARAM struct")
		}
		for _, nm := range fl.Names {
			fields = append(fields, nm.Name)
		}
	}
	// rewrite GetDaeNetns()... call chains into the input, check the free identifiers of every value
	allowed := map[string]bool{"opts": true, "os": true, "netnsID": true, "peerMac": true, "useRedirectPeer": true,
		"hasBpfGetCurrentTask": true, "soMarkFromDae": true, "uint32": true, "uint8": true, "uint16": true, "uint64": true,
		"byte": true, "int": true, "in": true}
	var rootedInNetns func(e ast.Expr) bool
	rootedInNetns = func(e ast.Expr) bool {
		switch x := e.(type) {
		case *ast.CallExpr:
			if id, ok := x.Fun.(*ast.Ident); ok && id.Name == "GetDaeNetns" {
				return true
			}
			return rootedInNetns(x.Fun)
		case *ast.SelectorExpr:
			return rootedInNetns(x.X)
		}
		return false
	}
	replaced := 0
	var rewrite func(e ast.Expr) ast.Expr
	rewrite = func(e ast.Expr) ast.Expr {
		if rootedInNetns(e) {
			replaced++
			return &ast.SelectorExpr{X: ast.NewIdent("in"), Sel: ast.NewIdent("Dae0Ifindex")}
		}
		switch x := e.(type) {
		case *ast.CallExpr:
			for i := range x.Args {
				x.Args[i] = rewrite(x.Args[i])
			}
		case *ast.ParenExpr:
			x.X = rewrite(x.X)
		case *ast.BinaryExpr:
			x.X, x.Y = rewrite(x.X), rewrite(x.Y)
		case *ast.UnaryExpr:
			x.X = rewrite(x.X)
		}
		return e
	}
	seen := map[string]bool{}
	for _, el := range lit.Elts {
		kv, ok := el.(*ast.KeyValueExpr)
		if !ok {
			fail("the PARAM literal is not written with field: value elements")
		}
		k, ok := kv.Key.(*ast.Ident)
		if !ok {
			fail("non-identifier key in the PARAM literal")
		}
		seen[k.Name] = true
		kv.Value = rewrite(kv.Value)
		ast.Inspect(kv.Value, func(nd ast.Node) bool {
			switch x := nd.(type) {
			case *ast.SelectorExpr:
				// only the root of a selector chain is a free identifier
				ast.Inspect(x.X, func(m ast.Node) bool {
					if id, ok := m.(*ast.Ident); ok && !allowed[id.Name] {
						fail("free identifier " + id.Name + " in the value of PARAM." + k.Name + " is not a known binding")
					}
					return true
				})
				return false
			case *ast.CompositeLit:
				for _, e := range x.Elts {
					ast.Inspect(e, func(m ast.Node) bool {
						if id, ok := m.(*ast.Ident); ok && !allowed[id.Name] {
							fail("free identifier " + id.Name + " in the value of PARAM." + k.Name)
						}
						return true
					})
				}
				return false
			case *ast.Ident:
				if !allowed[x.Name] {
					fail("free identifier " + x.Name + " in the value of PARAM." + k.Name + " is not a known binding")
				}
			}
			return true
		})
	}
	if replaced > 1 {
		fail("more than one GetDaeNetns() expression in the PARAM literal")
	}
	var litText bytes.Buffer
	if err := printer.Fprint(&litText, fset, lit); err != nil {
		fail(err.Error())
	}
	var b strings.Builder
	b.WriteString("// Code generated by translators/c03param from control/bpf_utils.go (fullLoadBpfObjects). DO NOT EDIT.\n\npackage control\n\n")
	b.WriteString("import (\n\t\"bytes\"\n\t\"encoding/binary\"\n\t\"os\"\n)\n\nvar _ = os.Getpid\n\n")
	b.WriteString("type verifC03ParamIn struct {\n\tTproxyPort, Dae0Ifindex, NetnsID uint32\n\tPeerMac [6]byte\n\tUseRedirectPeer, HasBpfGetCurrentTask uint8\n\tSoMarkFromDae uint32\n}\n\n")
	b.WriteString("var verifC03ParamFields = []string{")
	for i, n := range fields {
		if i > 0 {
			b.WriteString(", ")
		}
		b.WriteString(strconv.Quote(n))
	}
	b.WriteString("}\n\n")
	b.WriteString("func verifC03ParamImage(in verifC03ParamIn) ([]byte, error) {\n")
	b.WriteString("\topts := struct{ BigEndianTproxyPort uint32 }{in.TproxyPort}\n\tnetnsID := in.NetnsID\n\tpeerMac := in.PeerMac\n")
	b.WriteString("\tuseRedirectPeer := in.UseRedirectPeer\n\thasBpfGetCurrentTask := in.HasBpfGetCurrentTask\n\tsoMarkFromDae := in.SoMarkFromDae\n")
	b.WriteString("\t_, _, _, _, _, _ = opts, netnsID, peerMac, useRedirectPeer, hasBpfGetCurrentTask, soMarkFromDae\n")
	b.WriteString("\tv := " + litText.String() + "\n")
	b.WriteString("\tvar buf bytes.Buffer\n\tif err := binary.Write(&buf, binary.NativeEndian, v); err != nil {\n\t\treturn nil, err\n\t}\n\treturn buf.Bytes(), nil\n}\n")
	if err := os.WriteFile(out, []byte(b.String()), 0o644); err != nil {
		fail(err.Error())
	}
	fmt.Printf("c03param: PARAM literal at %s, %d fields -> %s\n", fset.Position(lit.Pos()), len(fields), out)
}
