// C19 translator, Go side, part 2: CONSTRUCTION SITES of the types shared with the kernel.
//
// findBuildSites lists every place in package control where a value of a plain-data struct type
// `bpf*`/`_bpf*` comes into being or is modified other than by a map read:
//
//	lit    composite literal  T{…} / &T{…}            fields = the keys of the literal
//	zero   `var x T`, `x := new(T)`, `var x [N]T`      fields = every field path stored on x in that function
//	store  field stores on a value that was not declared in the function (parameter, range variable,
//	       element of a slice, field of another object)  fields = the stored paths
//	cast   `(*T)(unsafe.Pointer(…))`
//	slice  `make([]T, n)` with n not the constant 0
//
// with, for `zero` sites, whether the variable's address is handed to a call (`&x` / `x[:]` as an
// argument: then a callee may fill it — map reads do) and whether it is returned.
//
// findCtorSigs lists the package-level functions (no receiver) that RETURN such a type (T, *T): these
// are the helper constructors.  checks/c19.py generates a harness file that calls every one whose
// parameter list has a recognised shape on generated inputs and compares the bytes with the kernel's
// constructors; the others must be classified by hand (Model.lean `buildSiteClass`) or the check fails closed.
package main

import (
	"fmt"
	"go/ast"
	"go/token"
	"go/types"
	"path/filepath"
	"sort"
	"strings"
)

type buildSite struct {
	Build   string   `json:"build"` // stub | real
	Func    string   `json:"func"`  // control.<func> / control.<Recv>.<method>
	Type    string   `json:"type"`  // stub.<T> / real.<T>
	Kind    string   `json:"kind"`
	Fields  []string `json:"fields"`
	ToCall  bool     `json:"toCall"`  // zero sites: the address of the variable is passed to a call
	Returns bool     `json:"returns"` // zero sites: the variable (or its address) is returned
	Where   string   `json:"where"`
}

type ctorSig struct {
	Build  string   `json:"build"`
	Builds []string `json:"builds"`
	Func   string   `json:"func"` // bare function name (package-level, no receiver)
	Type   string   `json:"type"` // translator name of the result type
	Ptr    bool     `json:"ptr"`  // result is *T
	Params []string `json:"params"`
	Nres   int      `json:"nres"`
	Where  string   `json:"where"`
}

func sharedName(pi *pkgInfo, t types.Type, origin string) (string, bool) {
	if t == nil {
		return "", false
	}
	n, ok := t.(*types.Named)
	if !ok || n.Obj().Pkg() != pi.pkg {
		return "", false
	}
	nm := n.Obj().Name()
	if !(strings.HasPrefix(nm, "bpf") || strings.HasPrefix(nm, "_bpf")) {
		return "", false
	}
	st, ok := n.Underlying().(*types.Struct)
	if !ok || st.NumFields() == 0 || !plain(n) {
		return "", false
	}
	return origin + "." + nm, true
}

func derefShared(pi *pkgInfo, t types.Type, origin string) (string, bool) {
	if t == nil {
		return "", false
	}
	if p, ok := t.Underlying().(*types.Pointer); ok {
		t = p.Elem()
	}
	return sharedName(pi, t, origin)
}

func funcName(fd *ast.FuncDecl) string {
	if fd.Recv != nil && len(fd.Recv.List) == 1 {
		t := fd.Recv.List[0].Type
		if s, ok := t.(*ast.StarExpr); ok {
			t = s.X
		}
		if ix, ok := t.(*ast.IndexExpr); ok {
			t = ix.X
		}
		if id, ok := t.(*ast.Ident); ok {
			return "control." + id.Name + "." + fd.Name.Name
		}
	}
	return "control." + fd.Name.Name
}

// findBuildSites scans the files of pi (only `onlyFiles` if non-nil).
func findBuildSites(pi *pkgInfo, fset *token.FileSet, origin string, onlyFiles map[string]bool) []buildSite {
	var out []buildSite
	where := func(p token.Pos) string {
		pos := fset.Position(p)
		return fmt.Sprintf("%s:%d", filepath.Base(pos.Filename), pos.Line)
	}
	typeOf := func(e ast.Expr) types.Type {
		if tv, ok := pi.info.Types[e]; ok {
			return tv.Type
		}
		return nil
	}
	for fi, f := range pi.files {
		if onlyFiles != nil && !onlyFiles[pi.names[fi]] {
			continue
		}
		for _, d := range f.Decls {
			fd, ok := d.(*ast.FuncDecl)
			if !ok || fd.Body == nil {
				continue
			}
			fn := funcName(fd)
			// variables of a shared type declared in this function by zero value
			type zvar struct {
				typ     string
				at      token.Pos
				fields  map[string]bool
				toCall  bool
				returns bool
			}
			zeros := map[types.Object]*zvar{}
			var zorder []types.Object
			stores := map[string]map[string]bool{} // type -> fields, for non-local roots
			storeAt := map[string]token.Pos{}
			declZero := func(id *ast.Ident, t types.Type) {
				if id == nil || id.Name == "_" {
					return
				}
				et := t
				if a, ok := t.Underlying().(*types.Array); ok {
					et = a.Elem()
				}
				tn, ok := sharedName(pi, et, origin)
				if !ok {
					return
				}
				obj := pi.info.Defs[id]
				if obj == nil {
					return
				}
				zeros[obj] = &zvar{typ: tn, at: id.Pos(), fields: map[string]bool{}}
				zorder = append(zorder, obj)
			}
			// rootOf: for a selector chain x.A.B (also through index expressions x[i].A and derefs),
			// the outermost sub-expression whose type is a shared struct, and the path below it.
			var rootOf func(e ast.Expr) (root ast.Expr, typ string, path string, ok bool)
			rootOf = func(e ast.Expr) (ast.Expr, string, string, bool) {
				path := ""
				var best ast.Expr
				bestT, bestP := "", ""
				for {
					switch x := e.(type) {
					case *ast.ParenExpr:
						e = x.X
						continue
					case *ast.IndexExpr:
						// an element of an array FIELD (x.F[i]) stays inside the chain; a slice element is a root candidate
						if tn, ok := derefShared(pi, typeOf(x), origin); ok && path != "" {
							best, bestT, bestP = x, tn, path
						}
						e = x.X
						continue
					case *ast.StarExpr:
						e = x.X
						continue
					case *ast.SelectorExpr:
						if path == "" {
							path = x.Sel.Name
						} else {
							path = x.Sel.Name + "." + path
						}
						if tn, ok := derefShared(pi, typeOf(x.X), origin); ok {
							best, bestT, bestP = x.X, tn, path
						}
						e = x.X
						continue
					}
					break
				}
				if best == nil {
					return nil, "", "", false
				}
				return best, bestT, bestP, true
			}
			rootObj := func(e ast.Expr) types.Object {
				for {
					switch x := e.(type) {
					case *ast.ParenExpr:
						e = x.X
						continue
					case *ast.StarExpr:
						e = x.X
						continue
					case *ast.IndexExpr:
						e = x.X
						continue
					case *ast.Ident:
						if o := pi.info.Uses[x]; o != nil {
							return o
						}
						return pi.info.Defs[x]
					}
					return nil
				}
			}
			recordStore := func(lhs ast.Expr, at token.Pos) {
				root, tn, path, ok := rootOf(lhs)
				if !ok {
					return
				}
				if obj := rootObj(root); obj != nil {
					if z, ok := zeros[obj]; ok {
						z.fields[path] = true
						return
					}
				}
				if stores[tn] == nil {
					stores[tn] = map[string]bool{}
					storeAt[tn] = at
				}
				stores[tn][path] = true
			}
			markArg := func(a ast.Expr) {
				// &x, x[:], &x[i], x (array/pointer var) handed to a call
				for {
					switch x := a.(type) {
					case *ast.UnaryExpr:
						if x.Op == token.AND {
							a = x.X
							continue
						}
					case *ast.SliceExpr:
						a = x.X
						continue
					case *ast.IndexExpr:
						a = x.X
						continue
					case *ast.ParenExpr:
						a = x.X
						continue
					}
					break
				}
				if id, ok := a.(*ast.Ident); ok {
					if z, ok := zeros[pi.info.Uses[id]]; ok {
						// only pointer-ish hand-overs let the callee write: the original expression decides
						z.toCall = true
					}
				}
			}
			ast.Inspect(fd.Body, func(n ast.Node) bool {
				switch x := n.(type) {
				case *ast.DeclStmt:
					if gd, ok := x.Decl.(*ast.GenDecl); ok && gd.Tok == token.VAR {
						for _, sp := range gd.Specs {
							vs := sp.(*ast.ValueSpec)
							if len(vs.Values) != 0 || vs.Type == nil {
								continue
							}
							t := typeOf(vs.Type)
							if t == nil {
								continue
							}
							for _, id := range vs.Names {
								declZero(id, t)
							}
						}
					}
				case *ast.AssignStmt:
					// x := new(T)
					if x.Tok == token.DEFINE && len(x.Lhs) == len(x.Rhs) {
						for i, r := range x.Rhs {
							if call, ok := r.(*ast.CallExpr); ok && len(call.Args) == 1 {
								if id, ok := call.Fun.(*ast.Ident); ok && id.Name == "new" {
									if lid, ok := x.Lhs[i].(*ast.Ident); ok {
										if t := typeOf(call.Args[0]); t != nil {
											declZero(lid, t)
										}
									}
								}
							}
						}
					}
					if x.Tok != token.DEFINE {
						for _, l := range x.Lhs {
							recordStore(l, x.Pos())
						}
					}
				case *ast.IncDecStmt:
					recordStore(x.X, x.Pos())
				case *ast.CompositeLit:
					t := typeOf(x)
					if tn, ok := sharedName(pi, t, origin); ok {
						var fields []string
						for _, el := range x.Elts {
							if kv, ok := el.(*ast.KeyValueExpr); ok {
								if id, ok := kv.Key.(*ast.Ident); ok {
									fields = append(fields, id.Name)
								}
							} else {
								fields = append(fields, "#positional")
							}
						}
						sort.Strings(fields)
						out = append(out, buildSite{Build: origin, Func: fn, Type: tn, Kind: "lit", Fields: fields, Where: where(x.Pos())})
					}
				case *ast.CallExpr:
					// conversion (*T)(unsafe.Pointer(..))
					if len(x.Args) == 1 {
						if pe, ok := x.Fun.(*ast.ParenExpr); ok {
							if se, ok := pe.X.(*ast.StarExpr); ok {
								if tn, ok := sharedName(pi, typeOf(se.X), origin); ok {
									out = append(out, buildSite{Build: origin, Func: fn, Type: tn, Kind: "cast", Where: where(x.Pos())})
								}
							}
						}
					}
					if id, ok := x.Fun.(*ast.Ident); ok && id.Name == "make" && len(x.Args) >= 2 {
						if st, ok := typeOf(x.Args[0]).(*types.Slice); ok {
							if tn, ok := sharedName(pi, st.Elem(), origin); ok {
								zeroLen := false
								if tv, ok := pi.info.Types[x.Args[1]]; ok && tv.Value != nil && tv.Value.String() == "0" {
									zeroLen = true
								}
								if !zeroLen {
									out = append(out, buildSite{Build: origin, Func: fn, Type: tn, Kind: "slice", Where: where(x.Pos())})
								}
							}
						}
					}
					// stores through a slice of a field: copy(x.F[:], …), binary.<E>.PutUintNN(x.F[:], …)
					fname := ""
					switch f := x.Fun.(type) {
					case *ast.Ident:
						fname = f.Name
					case *ast.SelectorExpr:
						fname = f.Sel.Name
					}
					if (fname == "copy" || strings.HasPrefix(fname, "PutUint")) && len(x.Args) >= 1 {
						if sl, ok := x.Args[0].(*ast.SliceExpr); ok {
							recordStore(sl.X, x.Pos())
						}
					}
					for _, a := range x.Args {
						switch a.(type) {
						case *ast.UnaryExpr, *ast.SliceExpr:
							markArg(a)
						case *ast.Ident:
							// a variable of pointer type (x := new(T)) handed over
							if t := typeOf(a); t != nil {
								if _, isPtr := t.Underlying().(*types.Pointer); isPtr {
									markArg(a)
								}
							}
						}
					}
				case *ast.ReturnStmt:
					for _, r := range x.Results {
						e := r
						if u, ok := e.(*ast.UnaryExpr); ok && u.Op == token.AND {
							e = u.X
						}
						if id, ok := e.(*ast.Ident); ok {
							if z, ok := zeros[pi.info.Uses[id]]; ok {
								z.returns = true
							}
						}
					}
				}
				return true
			})
			for _, obj := range zorder {
				z := zeros[obj]
				var fields []string
				for k := range z.fields {
					fields = append(fields, k)
				}
				sort.Strings(fields)
				out = append(out, buildSite{Build: origin, Func: fn, Type: z.typ, Kind: "zero", Fields: fields, ToCall: z.toCall, Returns: z.returns, Where: where(z.at)})
			}
			var tns []string
			for tn := range stores {
				tns = append(tns, tn)
			}
			sort.Strings(tns)
			for _, tn := range tns {
				var fields []string
				for k := range stores[tn] {
					fields = append(fields, k)
				}
				sort.Strings(fields)
				out = append(out, buildSite{Build: origin, Func: fn, Type: tn, Kind: "store", Fields: fields, Where: where(storeAt[tn])})
			}
		}
	}
	sort.SliceStable(out, func(i, j int) bool {
		if out[i].Func != out[j].Func {
			return out[i].Func < out[j].Func
		}
		if out[i].Type != out[j].Type {
			return out[i].Type < out[j].Type
		}
		return out[i].Kind < out[j].Kind
	})
	return out
}

// findCtorSigs: package-level functions without receiver whose first result is a shared type T or *T.
func findCtorSigs(pi *pkgInfo, fset *token.FileSet, origin string, onlyFiles map[string]bool) []ctorSig {
	var out []ctorSig
	for fi, f := range pi.files {
		if onlyFiles != nil && !onlyFiles[pi.names[fi]] {
			continue
		}
		for _, d := range f.Decls {
			fd, ok := d.(*ast.FuncDecl)
			if !ok || fd.Body == nil || fd.Recv != nil || fd.Type.Results == nil || fd.Type.TypeParams != nil {
				continue
			}
			nres := 0
			for _, r := range fd.Type.Results.List {
				if len(r.Names) == 0 {
					nres++
				} else {
					nres += len(r.Names)
				}
			}
			rt := fd.Type.Results.List[0].Type
			ptr := false
			if s, ok := rt.(*ast.StarExpr); ok {
				rt, ptr = s.X, true
			}
			var t types.Type
			if tv, ok := pi.info.Types[rt]; ok {
				t = tv.Type
			}
			tn, ok := sharedName(pi, t, origin)
			if !ok {
				continue
			}
			var params []string
			for _, p := range fd.Type.Params.List {
				s := types.ExprString(p.Type)
				k := len(p.Names)
				if k == 0 {
					k = 1
				}
				for i := 0; i < k; i++ {
					params = append(params, s)
				}
			}
			pos := fset.Position(fd.Pos())
			out = append(out, ctorSig{Build: origin, Func: fd.Name.Name, Type: tn, Ptr: ptr, Params: params, Nres: nres,
				Where: fmt.Sprintf("%s:%d", filepath.Base(pos.Filename), pos.Line)})
		}
	}
	sort.SliceStable(out, func(i, j int) bool { return out[i].Func < out[j].Func })
	return out
}

// mergeCtorSigs: one row per (function, file).  `builds` = the builds whose file set contains the file
// (in the real build minus bpf2go output the generated types do not resolve, so membership is by file).
func mergeCtorSigs(stub, real []ctorSig, stubFiles, realFiles map[string]bool) []ctorSig {
	var out []ctorSig
	seen := map[string]bool{}
	for _, c := range append(append([]ctorSig{}, stub...), real...) {
		file := strings.SplitN(c.Where, ":", 2)[0]
		k := c.Func + "|" + file
		if seen[k] {
			continue
		}
		seen[k] = true
		c.Builds = nil
		if stubFiles[file] {
			c.Builds = append(c.Builds, "stub")
		}
		if realFiles[file] {
			c.Builds = append(c.Builds, "real")
		}
		out = append(out, c)
	}
	sort.SliceStable(out, func(i, j int) bool { return out[i].Func < out[j].Func })
	return out
}
