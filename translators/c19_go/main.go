// C19 translator, Go side.  Regenerated on every check run; nothing in here is a fact about dae.
//
// It type-checks package control (twice: with the build tag dae_stub_ebpf = the stub build, and
// without it = the real build minus the bpf2go output that cannot be produced offline) and package
// common/consts from /repo's CURRENT sources with go/types, module-internal imports resolved from
// source, every other import replaced by an empty package (type errors are expected and ignored:
// constant values and plain-data struct types do not depend on them), and writes
//
//   - the memory layout (types.SizesFor("gc", GOARCH): size, alignment, every scalar/array leaf with
//     offset, element width, element count, signedness class, blank-ness) of every pointer-free
//     struct type `bpf*`/`_bpf*` of package control, for every GOARCH of dae's release matrix,
//     grouped into classes of identical layouts; and the encoding/binary ("packed", no alignment)
//     layout, which is what cilium/ebpf's sysenc puts on the wire for such a value;
//   - the same for the anonymous struct literal stored under "PARAM" in fullLoadBpfObjects;
//   - every package-level integer constant (and variable with a constant initialiser) of the two
//     packages;  the `ebpf:"…"` tags of bpfMaps / bpfPrograms / bpfVariables;
//   - the JSON spec common/consts/ebpf_sync_spec.json as data.
//
// usage: go run main.go <repo> <outdir> <leandir>
package main

import (
	"encoding/json"
	"fmt"
	"go/ast"
	"go/build"
	"go/constant"
	"go/importer"
	"go/parser"
	"go/token"
	"go/types"
	"os"
	"path/filepath"
	"reflect"
	"sort"
	"strconv"
	"strings"
)

const modPath = "github.com/daeuniverse/dae"

var arches = []string{"amd64", "arm64", "riscv64", "loong64", "mips64", "mips64le", "ppc64", "ppc64le", "s390x", "386", "arm", "mipsle", "mips"}

type loader struct {
	repo    string
	fset    *token.FileSet
	tags    []string
	cache   map[string]*pkgInfo
	timePkg *types.Package
}

type pkgInfo struct {
	pkg   *types.Package
	info  *types.Info
	files []*ast.File
	names []string
}

func (l *loader) Import(path string) (*types.Package, error) { return l.ImportFrom(path, "", 0) }

func (l *loader) ImportFrom(path, dir string, mode types.ImportMode) (*types.Package, error) {
	if path == "unsafe" {
		return types.Unsafe, nil
	}
	if path == "structs" {
		p := types.NewPackage("structs", "structs")
		tn := types.NewTypeName(token.NoPos, p, "HostLayout", nil)
		types.NewNamed(tn, types.NewStruct(nil, nil), nil)
		p.Scope().Insert(tn)
		p.MarkComplete()
		return p, nil
	}
	if path == "time" {
		// the real standard-library package, type-checked from GOROOT source: the control plane
		// writes its mirrors of the kernel's nanosecond limits as `N * time.Second`
		if l.timePkg == nil {
			p, err := importer.ForCompiler(l.fset, "source", nil).Import("time")
			if err != nil {
				return nil, err
			}
			l.timePkg = p
		}
		return l.timePkg, nil
	}
	if path == modPath || strings.HasPrefix(path, modPath+"/") {
		pi, err := l.load(strings.TrimPrefix(strings.TrimPrefix(path, modPath), "/"))
		if err != nil {
			return nil, err
		}
		return pi.pkg, nil
	}
	name := path[strings.LastIndex(path, "/")+1:]
	if len(name) > 1 && name[0] == 'v' {
		if _, err := strconv.Atoi(name[1:]); err == nil { // …/foo/v2
			rest := path[:strings.LastIndex(path, "/")]
			name = rest[strings.LastIndex(rest, "/")+1:]
		}
	}
	name = strings.TrimPrefix(name, "go-")
	name = strings.ReplaceAll(name, "-", "_")
	name = strings.ReplaceAll(name, ".", "_")
	p := types.NewPackage(path, name)
	p.MarkComplete()
	return p, nil
}

func (l *loader) load(rel string) (*pkgInfo, error) {
	if pi, ok := l.cache[rel]; ok {
		if pi == nil {
			return nil, fmt.Errorf("import cycle through %s", rel)
		}
		return pi, nil
	}
	l.cache[rel] = nil
	dir := filepath.Join(l.repo, rel)
	ctx := build.Default
	ctx.GOOS, ctx.GOARCH, ctx.CgoEnabled = "linux", "amd64", false
	ctx.BuildTags = l.tags
	ents, err := os.ReadDir(dir)
	if err != nil {
		return nil, err
	}
	pi := &pkgInfo{}
	for _, e := range ents {
		n := e.Name()
		if e.IsDir() || !strings.HasSuffix(n, ".go") || strings.HasSuffix(n, "_test.go") {
			continue
		}
		if ok, err := ctx.MatchFile(dir, n); err != nil || !ok {
			continue
		}
		f, err := parser.ParseFile(l.fset, filepath.Join(dir, n), nil, parser.SkipObjectResolution)
		if err != nil {
			return nil, err
		}
		pi.files = append(pi.files, f)
		pi.names = append(pi.names, n)
	}
	if len(pi.files) == 0 {
		p := types.NewPackage(modPath+"/"+rel, filepath.Base(rel))
		p.MarkComplete()
		pi.pkg = p
		l.cache[rel] = pi
		return pi, nil
	}
	pi.info = &types.Info{Types: map[ast.Expr]types.TypeAndValue{}, Defs: map[*ast.Ident]types.Object{}, Uses: map[*ast.Ident]types.Object{}}
	conf := types.Config{Importer: l, Error: func(error) {}, Sizes: types.SizesFor("gc", "amd64"), FakeImportC: true}
	pkg, _ := conf.Check(modPath+"/"+rel, l.fset, pi.files, pi.info)
	pi.pkg = pkg
	l.cache[rel] = pi
	return pi, nil
}

// ------------------------------------------------------------------------------------------ layouts

type Leaf struct {
	Path  string `json:"path"`
	Off   int64  `json:"off"`
	Esize int64  `json:"esize"`
	Count int64  `json:"count"`
	Cls   string `json:"cls"`
	Blank bool   `json:"blank"`
}

type Rec struct {
	Name   string `json:"name"`
	Size   int64  `json:"size"`
	Align  int64  `json:"align"`
	Leaves []Leaf `json:"leaves"`
}

// plain reports whether t is made of fixed-size integers/bools, arrays and structs of those only.
func plain(t types.Type) bool {
	switch u := t.Underlying().(type) {
	case *types.Basic:
		switch u.Kind() {
		case types.Bool, types.Int8, types.Int16, types.Int32, types.Int64,
			types.Uint8, types.Uint16, types.Uint32, types.Uint64:
			return true
		}
		return false
	case *types.Array:
		return plain(u.Elem())
	case *types.Struct:
		for i := 0; i < u.NumFields(); i++ {
			if !plain(u.Field(i).Type()) {
				return false
			}
		}
		return true
	}
	return false
}

func basicCls(b *types.Basic) string {
	switch b.Kind() {
	case types.Bool:
		return "bool"
	case types.Int8, types.Int16, types.Int32, types.Int64:
		return "sint"
	}
	return "uint"
}

// flatten appends the scalar/array leaves of struct type st located at base offset `base`.
// packed = encoding/binary layout (no alignment), otherwise sizes' layout.
func flatten(st *types.Struct, sizes types.Sizes, packed bool, base int64, prefix string, blank bool, out *[]Leaf) int64 {
	fields := make([]*types.Var, st.NumFields())
	for i := range fields {
		fields[i] = st.Field(i)
	}
	var offs []int64
	if !packed {
		offs = sizes.Offsetsof(fields)
	}
	cur := base
	for i, f := range fields {
		off := cur
		if !packed {
			off = base + offs[i]
		}
		name := f.Name()
		isBlank := blank || name == "_"
		if name == "_" {
			name = "_#" + strconv.Itoa(i)
		}
		sz := sizeOf(f.Type(), sizes, packed)
		emitLeaves(f.Type(), sizes, packed, off, prefix+name, isBlank, out)
		cur = off + sz
	}
	return cur - base
}

func sizeOf(t types.Type, sizes types.Sizes, packed bool) int64 {
	if !packed {
		return sizes.Sizeof(t)
	}
	switch u := t.Underlying().(type) {
	case *types.Array:
		return u.Len() * sizeOf(u.Elem(), sizes, packed)
	case *types.Struct:
		var s int64
		for i := 0; i < u.NumFields(); i++ {
			s += sizeOf(u.Field(i).Type(), sizes, packed)
		}
		return s
	}
	return sizes.Sizeof(t)
}

func emitLeaves(t types.Type, sizes types.Sizes, packed bool, off int64, path string, blank bool, out *[]Leaf) {
	switch u := t.Underlying().(type) {
	case *types.Struct:
		flatten(u, sizes, packed, off, path+".", blank, out)
	case *types.Array:
		count := u.Len()
		et := u.Elem()
		for {
			if a, ok := et.Underlying().(*types.Array); ok {
				count *= a.Len()
				et = a.Elem()
				continue
			}
			break
		}
		if b, ok := et.Underlying().(*types.Basic); ok {
			*out = append(*out, Leaf{path, off, sizeOf(et, sizes, packed), count, basicCls(b), blank})
		} else {
			*out = append(*out, Leaf{path, off, sizeOf(et, sizes, packed), count, "recd", blank})
		}
	case *types.Basic:
		*out = append(*out, Leaf{path, off, sizes.Sizeof(t), 1, basicCls(u), blank})
	}
}

func recOf(name string, t types.Type, sizes types.Sizes, packed bool) Rec {
	st := t.Underlying().(*types.Struct)
	var leaves []Leaf
	sz := flatten(st, sizes, packed, 0, "", false, &leaves)
	r := Rec{Name: name, Leaves: leaves}
	if packed {
		r.Size, r.Align = sz, 1
	} else {
		r.Size, r.Align = sizes.Sizeof(t), sizes.Alignof(t)
	}
	// zero-size leaves (structs.HostLayout markers) carry no bytes
	kept := r.Leaves[:0]
	for _, l := range r.Leaves {
		if l.Esize*l.Count > 0 {
			kept = append(kept, l)
		}
	}
	r.Leaves = kept
	return r
}

type namedType struct {
	name string
	t    types.Type
}

func dataStructs(pi *pkgInfo, origin string, onlyFiles map[string]bool) []namedType {
	var out []namedType
	for i, f := range pi.files {
		if onlyFiles != nil && !onlyFiles[pi.names[i]] {
			continue
		}
		for _, d := range f.Decls {
			gd, ok := d.(*ast.GenDecl)
			if !ok || gd.Tok != token.TYPE {
				continue
			}
			for _, s := range gd.Specs {
				ts := s.(*ast.TypeSpec)
				n := ts.Name.Name
				if !(strings.HasPrefix(n, "bpf") || strings.HasPrefix(n, "_bpf")) {
					continue
				}
				obj := pi.info.Defs[ts.Name]
				if obj == nil {
					continue
				}
				st, ok := obj.Type().Underlying().(*types.Struct)
				if !ok || st.NumFields() == 0 || !plain(obj.Type()) {
					continue
				}
				out = append(out, namedType{origin + "." + n, obj.Type()})
			}
		}
	}
	return out
}

// findParamLiteral returns the type of the composite literal stored under the key "PARAM" of a
// map[string]interface{} literal (fullLoadBpfObjects).
func findParamLiteral(pi *pkgInfo) types.Type {
	var found types.Type
	for _, f := range pi.files {
		ast.Inspect(f, func(n ast.Node) bool {
			kv, ok := n.(*ast.KeyValueExpr)
			if !ok {
				return true
			}
			bl, ok := kv.Key.(*ast.BasicLit)
			if !ok || bl.Kind != token.STRING || bl.Value != `"PARAM"` {
				return true
			}
			if cl, ok := kv.Value.(*ast.CompositeLit); ok {
				if tv, ok := pi.info.Types[cl]; ok && tv.Type != nil {
					if _, ok := tv.Type.Underlying().(*types.Struct); ok {
						found = tv.Type
					}
				}
			}
			return true
		})
	}
	return found
}

func ebpfTags(pi *pkgInfo, typeName string) []string {
	obj := pi.pkg.Scope().Lookup(typeName)
	if obj == nil {
		return nil
	}
	st, ok := obj.Type().Underlying().(*types.Struct)
	if !ok {
		return nil
	}
	var out []string
	for i := 0; i < st.NumFields(); i++ {
		if v := reflect.StructTag(st.Tag(i)).Get("ebpf"); v != "" {
			out = append(out, v)
		}
	}
	return out
}

// mapIO is one place where package control hands a key or a value to an eBPF map: a method call on a
// field of bpfMaps (Update/Lookup/Delete/Batch*), one of the package's batch wrappers
// (BpfMapBatchUpdate/BpfMapBatchDelete/BpfMapBatchDeleteAll[K,V]/BpfMapDeleteAll[K,V]), newLpmMap, or any
// of these inside a function that receives the map as a *ebpf.Map parameter (followed to depth 3).
// For the key / value argument: its static Go type (pointer / slice dereferenced), the translator's
// name of that type when it is a struct type of package control ("stub.<T>"), its size when it is
// plain data (0 = unknown: interface, not type-checkable), and its value when it is a constant.
type mapIO struct {
	Map      string `json:"map"`
	Via      string `json:"via"`
	Role     int    `json:"role"` // 0 = key, 1 = value
	TypeName string `json:"typeName"`
	Size     int64  `json:"size"`
	Type     string `json:"type"`
	Const    string `json:"const"`
	Assigned string `json:"assigned"` // variable the result of the enclosing statement is stored in (for constant keys)
	Where    string `json:"where"`
}

type fieldLiteral struct {
	TypeName string `json:"typeName"`
	Field    string `json:"field"`
	Value    string `json:"value"`
	Const    string `json:"const"` // qualified name when the operand is (a conversion of) a named constant
	Where    string `json:"where"`
}

func mapFieldTags(pi *pkgInfo) map[string]string {
	out := map[string]string{}
	obj := pi.pkg.Scope().Lookup("bpfMaps")
	if obj == nil {
		return out
	}
	st, ok := obj.Type().Underlying().(*types.Struct)
	if !ok {
		return out
	}
	for i := 0; i < st.NumFields(); i++ {
		if v := reflect.StructTag(st.Tag(i)).Get("ebpf"); v != "" {
			out[st.Field(i).Name()] = v
		}
	}
	return out
}

type scanner struct {
	pi    *pkgInfo
	fset  *token.FileSet
	tags  map[string]string
	sizes types.Sizes
	ios   []mapIO
	// (function object, parameter index) -> map tag, for functions that are handed a bpfMaps field
	bound map[types.Object]map[int]string
	decls map[types.Object]*ast.FuncDecl
}

func (sc *scanner) where(p token.Pos) string {
	pos := sc.fset.Position(p)
	return fmt.Sprintf("%s:%d", filepath.Base(pos.Filename), pos.Line)
}

// describe returns (typeName, size, display, const) of an argument expression / type.
func (sc *scanner) describeType(t types.Type) (string, int64, string) {
	for {
		switch u := t.Underlying().(type) {
		case *types.Pointer:
			t = u.Elem()
			continue
		case *types.Slice:
			t = u.Elem()
			continue
		}
		break
	}
	disp := types.TypeString(t, func(p *types.Package) string { return p.Name() })
	var sz int64
	if plain(t) {
		sz = sc.sizes.Sizeof(t)
	}
	name := ""
	if n, ok := t.(*types.Named); ok && n.Obj().Pkg() == sc.pi.pkg {
		if _, ok := n.Underlying().(*types.Struct); ok {
			name = "stub." + n.Obj().Name()
		}
	}
	return name, sz, disp
}

func (sc *scanner) add(tag, via string, role int, e ast.Expr, assigned string, at token.Pos) {
	tv, ok := sc.pi.info.Types[e]
	io := mapIO{Map: tag, Via: via, Role: role, Assigned: assigned, Where: sc.where(at), Type: "?"}
	if !ok || tv.Type == nil || tv.Type == types.Typ[types.Invalid] {
		// a conversion `uint64(<expr the fake imports cannot type>)` still has a known type
		if call, isCall := e.(*ast.CallExpr); isCall && len(call.Args) == 1 {
			if id, isId := call.Fun.(*ast.Ident); isId {
				if tn, isT := types.Universe.Lookup(id.Name).(*types.TypeName); isT {
					io.TypeName, io.Size, io.Type = sc.describeType(tn.Type())
				}
			}
		}
	} else if ok && tv.Type != nil {
		io.TypeName, io.Size, io.Type = sc.describeType(tv.Type)
		if tv.Value != nil {
			if v := constant.ToInt(tv.Value); v.Kind() == constant.Int {
				io.Const = v.ExactString()
			}
		}
	}
	sc.ios = append(sc.ios, io)
}

func (sc *scanner) addType(tag, via string, role int, t types.Type, at token.Pos) {
	io := mapIO{Map: tag, Via: via, Role: role, Where: sc.where(at)}
	io.TypeName, io.Size, io.Type = sc.describeType(t)
	sc.ios = append(sc.ios, io)
}

// tagOf: the map an expression denotes: `<x>.<bpfMaps field>` or a parameter bound to one.
func (sc *scanner) tagOf(e ast.Expr, env map[types.Object]string) (string, bool) {
	switch x := e.(type) {
	case *ast.SelectorExpr:
		if t, ok := sc.tags[x.Sel.Name]; ok {
			return t, true
		}
	case *ast.Ident:
		if obj := sc.pi.info.Uses[x]; obj != nil {
			if t, ok := env[obj]; ok {
				return t, true
			}
		}
	case *ast.ParenExpr:
		return sc.tagOf(x.X, env)
	}
	return "", false
}

var methodArgs = map[string][2]int{ // method -> (index of key argument, index of value argument; -1 = none)
	"Update": {0, 1}, "Put": {0, 1}, "Lookup": {0, 1}, "LookupAndDelete": {0, 1}, "LookupBytes": {0, -1},
	"Delete": {0, -1}, "NextKey": {0, -1},
	"BatchLookup": {1, 2}, "BatchLookupAndDelete": {1, 2}, "BatchUpdate": {0, 1}, "BatchDelete": {0, -1},
}
var wrapperArgs = map[string][2]int{ // package function taking the map as argument 0
	"BpfMapBatchUpdate": {1, 2}, "BpfMapBatchDelete": {1, -1},
}

// assignedVar: the variable that receives the value produced by the statement enclosing `call`
// (`x = f()`, `x := f()`, `if v, err := f(); … { x = v }`).
func assignedVar(stack []ast.Node) string {
	for i := len(stack) - 1; i >= 0; i-- {
		switch st := stack[i].(type) {
		case *ast.IfStmt:
			for _, b := range st.Body.List {
				if as, ok := b.(*ast.AssignStmt); ok && len(as.Lhs) > 0 {
					if id, ok := as.Lhs[0].(*ast.Ident); ok {
						return id.Name
					}
				}
			}
		case *ast.AssignStmt:
			if i+1 < len(stack) {
				if _, isInit := stack[i-1].(*ast.IfStmt); isInit && i > 0 {
					continue
				}
			}
			if id, ok := st.Lhs[0].(*ast.Ident); ok {
				return id.Name
			}
		case *ast.FuncDecl, *ast.FuncLit:
			return ""
		}
	}
	return ""
}

func (sc *scanner) scanBody(body ast.Node, env map[types.Object]string, via string) (newBindings bool) {
	var stack []ast.Node
	ast.Inspect(body, func(n ast.Node) bool {
		if n == nil {
			stack = stack[:len(stack)-1]
			return true
		}
		stack = append(stack, n)
		// a local alias of a map (`m := x.<bpfMaps field>`) denotes that map from here on
		if as, ok := n.(*ast.AssignStmt); ok && len(as.Lhs) == len(as.Rhs) {
			for i, l := range as.Lhs {
				if id, ok := l.(*ast.Ident); ok {
					if tag, ok := sc.tagOf(as.Rhs[i], env); ok {
						obj := sc.pi.info.Defs[id]
						if obj == nil {
							obj = sc.pi.info.Uses[id]
						}
						if obj != nil {
							if env == nil {
								env = map[types.Object]string{}
							}
							env[obj] = tag
						}
					}
				}
			}
		}
		call, ok := n.(*ast.CallExpr)
		if !ok {
			return true
		}
		pfx := via
		// (1) method call on a map expression
		if sel, ok := call.Fun.(*ast.SelectorExpr); ok {
			if tag, ok := sc.tagOf(sel.X, env); ok {
				if idx, ok := methodArgs[sel.Sel.Name]; ok {
					for role, ai := range idx {
						if ai >= 0 && ai < len(call.Args) {
							sc.add(tag, pfx+sel.Sel.Name, role, call.Args[ai], assignedVar(stack), call.Pos())
						}
					}
				}
				return true
			}
		}
		// (2) package-level wrappers and generic helpers with the map as first argument
		fun := call.Fun
		var typeArgs []ast.Expr
		switch ix := fun.(type) {
		case *ast.IndexListExpr:
			fun, typeArgs = ix.X, ix.Indices
		case *ast.IndexExpr:
			fun, typeArgs = ix.X, []ast.Expr{ix.Index}
		}
		fname := ""
		switch f := fun.(type) {
		case *ast.Ident:
			fname = f.Name
		case *ast.SelectorExpr:
			fname = f.Sel.Name
		}
		if len(call.Args) > 0 {
			if tag, ok := sc.tagOf(call.Args[0], env); ok {
				if idx, ok := wrapperArgs[fname]; ok {
					for role, ai := range idx {
						if ai >= 0 && ai < len(call.Args) {
							sc.add(tag, pfx+fname, role, call.Args[ai], "", call.Pos())
						}
					}
				} else if len(typeArgs) == 2 { // BpfMapBatchDeleteAll[K, V](m), BpfMapDeleteAll[K, V](m)
					for role, ta := range typeArgs {
						if tv, ok := sc.pi.info.Types[ta]; ok && tv.Type != nil {
							sc.addType(tag, pfx+fname+"[K,V]", role, tv.Type, call.Pos())
						}
					}
				}
			}
		}
		// (3) newLpmMap(keys, values): creates a map with the key/value sizes of unused_lpm_type
		if fname == "newLpmMap" && len(call.Args) == 2 {
			sc.add("unused_lpm_type", pfx+"newLpmMap", 0, call.Args[0], "", call.Pos())
			sc.add("unused_lpm_type", pfx+"newLpmMap", 1, call.Args[1], "", call.Pos())
		}
		// (4) a function of this package that is handed a map: bind its parameter, record constant co-arguments
		var callee types.Object
		switch f := fun.(type) {
		case *ast.Ident:
			callee = sc.pi.info.Uses[f]
		case *ast.SelectorExpr:
			callee = sc.pi.info.Uses[f.Sel]
		}
		if callee != nil && callee.Pkg() == sc.pi.pkg {
			if _, isWrapper := wrapperArgs[fname]; !isWrapper {
				for ai, a := range call.Args {
					if tag, ok := sc.tagOf(a, env); ok {
						if sc.bound[callee] == nil {
							sc.bound[callee] = map[int]string{}
						}
						if sc.bound[callee][ai] == "" {
							sc.bound[callee][ai] = tag
							newBindings = true
						}
						// constants passed next to the map (readBpfStatsCounter(m, 0))
						for bi, b := range call.Args {
							if tv, ok := sc.pi.info.Types[b]; ok && bi != ai && tv.Value != nil {
								if v := constant.ToInt(tv.Value); v.Kind() == constant.Int {
									sc.ios = append(sc.ios, mapIO{Map: tag, Via: pfx + fname + "(const)", Role: 0, Size: 0, Type: "const",
										Const: v.ExactString(), Assigned: assignedVar(stack), Where: sc.where(call.Pos())})
								}
							}
						}
					}
				}
			}
		}
		return true
	})
	return
}

func findMapIO(pi *pkgInfo, fset *token.FileSet) []mapIO {
	sc := &scanner{pi: pi, fset: fset, tags: mapFieldTags(pi), sizes: types.SizesFor("gc", "amd64"),
		bound: map[types.Object]map[int]string{}, decls: map[types.Object]*ast.FuncDecl{}}
	for _, f := range pi.files {
		for _, d := range f.Decls {
			if fd, ok := d.(*ast.FuncDecl); ok && fd.Body != nil {
				if obj := pi.info.Defs[fd.Name]; obj != nil {
					sc.decls[obj] = fd
				}
			}
		}
	}
	// pass 0: direct uses everywhere
	for _, f := range pi.files {
		sc.scanBody(f, nil, "")
	}
	direct := sc.ios
	if os.Getenv("C19_DEBUG") != "" {
		for c, ps := range sc.bound {
			fmt.Fprintln(os.Stderr, "bound", c.Name(), ps, sc.decls[c] != nil)
		}
	}
	// passes 1..3: inside functions that receive a map
	done := map[string]bool{}
	var followed []mapIO
	for depth := 0; depth < 3; depth++ {
		progress := false
		for callee, params := range sc.bound {
			fd := sc.decls[callee]
			if fd == nil {
				continue
			}
			for pidx, tag := range params {
				k := fmt.Sprintf("%p/%d/%s", callee, pidx, tag)
				if done[k] {
					continue
				}
				done[k] = true
				progress = true
				// parameter object
				var pobj types.Object
				i := 0
				for _, fl := range fd.Type.Params.List {
					for _, nm := range fl.Names {
						if i == pidx {
							pobj = pi.info.Defs[nm]
						}
						i++
					}
				}
				if pobj == nil {
					continue
				}
				sc.ios = nil
				sc.scanBody(fd.Body, map[types.Object]string{pobj: tag}, "in "+fd.Name.Name+": ")
				followed = append(followed, sc.ios...)
			}
		}
		if !progress {
			break
		}
	}
	all := append(direct, followed...)
	// deterministic order, no duplicates
	seen := map[string]bool{}
	var out []mapIO
	for _, io := range all {
		k := fmt.Sprintf("%s|%s|%d|%s|%s|%s", io.Map, io.Via, io.Role, io.Type, io.Const, io.Where)
		if !seen[k] {
			seen[k] = true
			out = append(out, io)
		}
	}
	sort.SliceStable(out, func(i, j int) bool {
		if out[i].Map != out[j].Map {
			return out[i].Map < out[j].Map
		}
		if out[i].Where != out[j].Where {
			return out[i].Where < out[j].Where
		}
		return out[i].Role < out[j].Role
	})
	return out
}

// findListenUse: for every `ListenSocketMap.Update(consts.K, uint64(<f>.Fd()), …)`: which field of the
// listener the file <f> was duplicated from (`<f>, e := dup…(listener.<field>)` in the same function)
// and the key constant.
func findListenUse(pi *pkgInfo) [][2]string {
	tags := mapFieldTags(pi)
	var out [][2]string
	for _, f := range pi.files {
		for _, d := range f.Decls {
			fd, ok := d.(*ast.FuncDecl)
			if !ok || fd.Body == nil {
				continue
			}
			origin := map[string]string{}  // local variable -> field of the argument of its defining call
			aliasOf := map[string]string{} // local variable -> bpfMaps field it was assigned from
			ast.Inspect(fd.Body, func(n ast.Node) bool {
				as, ok := n.(*ast.AssignStmt)
				if !ok || len(as.Rhs) != 1 || len(as.Lhs) == 0 {
					return true
				}
				if id, ok := as.Lhs[0].(*ast.Ident); ok {
					if rs, ok := as.Rhs[0].(*ast.SelectorExpr); ok {
						if _, isMap := tags[rs.Sel.Name]; isMap {
							aliasOf[id.Name] = rs.Sel.Name
						}
					}
				}
				id, ok := as.Lhs[0].(*ast.Ident)
				call, ok2 := as.Rhs[0].(*ast.CallExpr)
				if !ok || !ok2 || len(call.Args) == 0 {
					return true
				}
				if sel, ok := call.Args[0].(*ast.SelectorExpr); ok {
					origin[id.Name] = sel.Sel.Name
				}
				return true
			})
			ast.Inspect(fd.Body, func(n ast.Node) bool {
				call, ok := n.(*ast.CallExpr)
				if !ok || len(call.Args) < 2 {
					return true
				}
				sel, ok := call.Fun.(*ast.SelectorExpr)
				if !ok || sel.Sel.Name != "Update" {
					return true
				}
				recvName := ""
				switch rx := sel.X.(type) {
				case *ast.SelectorExpr:
					recvName = rx.Sel.Name
				case *ast.Ident:
					recvName = aliasOf[rx.Name]
				}
				if tags[recvName] != "listen_socket_map" {
					return true
				}
				key := ""
				if k, ok := call.Args[0].(*ast.SelectorExpr); ok {
					if x, ok := k.X.(*ast.Ident); ok {
						key = x.Name + "." + k.Sel.Name
					}
				}
				who := ""
				ast.Inspect(call.Args[1], func(n ast.Node) bool {
					if s, ok := n.(*ast.SelectorExpr); ok && s.Sel.Name == "Fd" {
						if id, ok := s.X.(*ast.Ident); ok {
							who = id.Name
						}
					}
					return true
				})
				src := origin[who]
				if src == "" {
					src = "?" + who
				}
				out = append(out, [2]string{src, key})
				return true
			})
		}
	}
	return out
}

// findFieldLiterals: every comparison (==, !=, <, …) and every switch case between a field of a struct
// type `bpf*` of package control and an integer constant.
func findFieldLiterals(pi *pkgInfo, fset *token.FileSet) []fieldLiteral {
	var out []fieldLiteral
	fieldOf := func(e ast.Expr) (string, string, bool) {
		path := ""
		for {
			sel, ok := e.(*ast.SelectorExpr)
			if !ok {
				return "", "", false
			}
			if path == "" {
				path = sel.Sel.Name
			} else {
				path = sel.Sel.Name + "." + path
			}
			if tv, ok := pi.info.Types[sel.X]; ok && tv.Type != nil {
				t := tv.Type
				if p, ok := t.Underlying().(*types.Pointer); ok {
					t = p.Elem()
				}
				if n, ok := t.(*types.Named); ok && n.Obj().Pkg() == pi.pkg &&
					(strings.HasPrefix(n.Obj().Name(), "bpf") || strings.HasPrefix(n.Obj().Name(), "_bpf")) {
					return "stub." + n.Obj().Name(), path, true
				}
			}
			e = sel.X
		}
	}
	constOf := func(e ast.Expr) (string, bool) {
		if tv, ok := pi.info.Types[e]; ok && tv.Value != nil {
			if v := constant.ToInt(tv.Value); v.Kind() == constant.Int {
				return v.ExactString(), true
			}
		}
		return "", false
	}
	where := func(p token.Pos) string {
		pos := fset.Position(p)
		return fmt.Sprintf("%s:%d", filepath.Base(pos.Filename), pos.Line)
	}
	// nameOf: `consts.X`, `X`, or a conversion `uint8(consts.X)` of a declared constant -> "consts.X" / "control.X"
	var nameOf func(e ast.Expr) string
	nameOf = func(e ast.Expr) string {
		switch x := e.(type) {
		case *ast.ParenExpr:
			return nameOf(x.X)
		case *ast.CallExpr:
			if len(x.Args) == 1 {
				return nameOf(x.Args[0])
			}
		case *ast.Ident:
			if c, ok := pi.info.Uses[x].(*types.Const); ok && c.Pkg() != nil {
				return c.Pkg().Name() + "." + c.Name()
			}
		case *ast.SelectorExpr:
			if c, ok := pi.info.Uses[x.Sel].(*types.Const); ok && c.Pkg() != nil {
				return c.Pkg().Name() + "." + c.Name()
			}
		}
		return ""
	}
	for _, f := range pi.files {
		ast.Inspect(f, func(n ast.Node) bool {
			switch x := n.(type) {
			case *ast.BinaryExpr:
				switch x.Op {
				case token.EQL, token.NEQ, token.LSS, token.GTR, token.LEQ, token.GEQ:
				default:
					return true
				}
				for _, pr := range [][2]ast.Expr{{x.X, x.Y}, {x.Y, x.X}} {
					if tn, fld, ok := fieldOf(pr[0]); ok {
						if v, ok := constOf(pr[1]); ok {
							out = append(out, fieldLiteral{tn, fld, v, nameOf(pr[1]), where(x.Pos())})
						}
					}
				}
			case *ast.SwitchStmt:
				if x.Tag == nil {
					return true
				}
				if tn, fld, ok := fieldOf(x.Tag); ok {
					for _, c := range x.Body.List {
						for _, e := range c.(*ast.CaseClause).List {
							if v, ok := constOf(e); ok {
								out = append(out, fieldLiteral{tn, fld, v, nameOf(e), where(e.Pos())})
							}
						}
					}
				}
			}
			return true
		})
	}
	return out
}

// findParamInit: the identifiers mentioned in the initialiser of every field of the "PARAM" literal.
func findParamInit(pi *pkgInfo) [][]string {
	var out [][]string
	for _, f := range pi.files {
		for _, d := range f.Decls {
			fd, ok := d.(*ast.FuncDecl)
			if !ok || fd.Body == nil {
				continue
			}
			// every expression assigned to a local of this function (`x := e`, `x = e`)
			assigned := map[string][]ast.Expr{}
			ast.Inspect(fd.Body, func(n ast.Node) bool {
				if as, ok := n.(*ast.AssignStmt); ok {
					for i, l := range as.Lhs {
						if id, ok := l.(*ast.Ident); ok {
							if len(as.Rhs) == len(as.Lhs) {
								assigned[id.Name] = append(assigned[id.Name], as.Rhs[i])
							} else if len(as.Rhs) == 1 {
								assigned[id.Name] = append(assigned[id.Name], as.Rhs[0])
							}
						}
					}
				}
				return true
			})
			var collect func(e ast.Expr, depth int, seen map[string]bool, row *[]string)
			collect = func(e ast.Expr, depth int, seen map[string]bool, row *[]string) {
				ast.Inspect(e, func(n ast.Node) bool {
					if id, ok := n.(*ast.Ident); ok {
						*row = append(*row, id.Name)
						if depth > 0 && !seen[id.Name] {
							seen[id.Name] = true
							for _, r := range assigned[id.Name] {
								collect(r, depth-1, seen, row)
							}
						}
					}
					return true
				})
			}
			ast.Inspect(fd.Body, func(n ast.Node) bool {
				kv, ok := n.(*ast.KeyValueExpr)
				if !ok {
					return true
				}
				bl, ok := kv.Key.(*ast.BasicLit)
				if !ok || bl.Kind != token.STRING || bl.Value != `"PARAM"` {
					return true
				}
				cl, ok := kv.Value.(*ast.CompositeLit)
				if !ok {
					return true
				}
				for _, el := range cl.Elts {
					fkv, ok := el.(*ast.KeyValueExpr)
					if !ok {
						continue
					}
					row := []string{fmt.Sprint(fkv.Key)}
					collect(fkv.Value, 3, map[string]bool{}, &row)
					out = append(out, row)
				}
				return false
			})
		}
	}
	return out
}

// findCallbackIdShape: how the outbound id handed to outboundAliveChangeCallback is formed at its call
// sites: "index" = `uint8(len(X))` immediately before `X = append(X, …)` with ids later assigned as
// `…[o.Name] = uint8(i)` over `range X`; "index+k" = that plus/minus a non-zero constant; "other".
func findCallbackIdShape(pi *pkgInfo) []string {
	var out []string
	lenOf := func(e ast.Expr) string { // uint8(len(X)) -> X
		c, ok := e.(*ast.CallExpr)
		if !ok || len(c.Args) != 1 {
			return ""
		}
		if id, ok := c.Fun.(*ast.Ident); !ok || id.Name != "uint8" {
			return ""
		}
		l, ok := c.Args[0].(*ast.CallExpr)
		if !ok || len(l.Args) != 1 {
			return ""
		}
		if id, ok := l.Fun.(*ast.Ident); !ok || id.Name != "len" {
			return ""
		}
		if x, ok := l.Args[0].(*ast.Ident); ok {
			return x.Name
		}
		return ""
	}
	for _, f := range pi.files {
		for _, d := range f.Decls {
			fd, ok := d.(*ast.FuncDecl)
			if !ok || fd.Body == nil {
				continue
			}
			assigned := map[string]ast.Expr{}
			rangedWithIndexIds := map[string]bool{}
			ast.Inspect(fd.Body, func(n ast.Node) bool {
				switch x := n.(type) {
				case *ast.AssignStmt:
					if len(x.Lhs) == 1 && len(x.Rhs) == 1 {
						if id, ok := x.Lhs[0].(*ast.Ident); ok {
							assigned[id.Name] = x.Rhs[0]
						}
					}
				case *ast.RangeStmt:
					k, ok1 := x.Key.(*ast.Ident)
					coll, ok2 := x.X.(*ast.Ident)
					if ok1 && ok2 {
						ast.Inspect(x.Body, func(m ast.Node) bool {
							if as, ok := m.(*ast.AssignStmt); ok && len(as.Rhs) == 1 {
								if c, ok := as.Rhs[0].(*ast.CallExpr); ok && len(c.Args) == 1 {
									if a, ok := c.Args[0].(*ast.Ident); ok && a.Name == k.Name {
										rangedWithIndexIds[coll.Name] = true
									}
								}
							}
							return true
						})
					}
				}
				return true
			})
			ast.Inspect(fd.Body, func(n ast.Node) bool {
				call, ok := n.(*ast.CallExpr)
				if !ok || len(call.Args) < 1 {
					return true
				}
				sel, ok := call.Fun.(*ast.SelectorExpr)
				if !ok || sel.Sel.Name != "outboundAliveChangeCallback" {
					return true
				}
				arg := call.Args[0]
				if id, ok := arg.(*ast.Ident); ok && assigned[id.Name] != nil {
					arg = assigned[id.Name]
				}
				shape := "other"
				if tv, ok := pi.info.Types[arg]; ok && tv.Value != nil {
					shape = "const" + constant.ToInt(tv.Value).ExactString()
				} else if x := lenOf(arg); x != "" && rangedWithIndexIds[x] {
					shape = "index"
				} else if be, ok := arg.(*ast.BinaryExpr); ok && (be.Op == token.ADD || be.Op == token.SUB) {
					if x := lenOf(be.X); x != "" && rangedWithIndexIds[x] {
						if tv, ok := pi.info.Types[be.Y]; ok && tv.Value != nil && constant.Sign(tv.Value) != 0 {
							shape = "index+k"
						}
					}
				}
				out = append(out, shape)
				return true
			})
		}
	}
	return out
}

// findProgAttach: composite literals `{Prog: <x>.<bpfPrograms field>, Attach: ebpf.<AttachType>}`:
// (ebpf tag of the program, name of the attach type).
func findProgAttach(pi *pkgInfo) [][2]string {
	tags := map[string]string{}
	if obj := pi.pkg.Scope().Lookup("bpfPrograms"); obj != nil {
		if st, ok := obj.Type().Underlying().(*types.Struct); ok {
			for i := 0; i < st.NumFields(); i++ {
				if v := reflect.StructTag(st.Tag(i)).Get("ebpf"); v != "" {
					tags[st.Field(i).Name()] = v
				}
			}
		}
	}
	var out [][2]string
	for _, f := range pi.files {
		ast.Inspect(f, func(n ast.Node) bool {
			cl, ok := n.(*ast.CompositeLit)
			if !ok {
				return true
			}
			prog, attach := "", ""
			for _, el := range cl.Elts {
				kv, ok := el.(*ast.KeyValueExpr)
				if !ok {
					continue
				}
				k, ok := kv.Key.(*ast.Ident)
				if !ok {
					continue
				}
				if sel, ok := kv.Value.(*ast.SelectorExpr); ok {
					if k.Name == "Prog" {
						prog = tags[sel.Sel.Name]
					}
					if k.Name == "Attach" {
						attach = sel.Sel.Name
					}
				}
			}
			if prog != "" && attach != "" {
				out = append(out, [2]string{prog, attach})
			}
			return true
		})
	}
	return out
}

// findProgUses: ebpf tags of the bpfPrograms fields that package control refers to outside the
// declaration files (the programs the control plane really attaches).
func findProgUses(pi *pkgInfo) []string {
	tags := map[string]string{}
	if obj := pi.pkg.Scope().Lookup("bpfPrograms"); obj != nil {
		if st, ok := obj.Type().Underlying().(*types.Struct); ok {
			for i := 0; i < st.NumFields(); i++ {
				if v := reflect.StructTag(st.Tag(i)).Get("ebpf"); v != "" {
					tags[st.Field(i).Name()] = v
				}
			}
		}
	}
	seen := map[string]bool{}
	for i, f := range pi.files {
		if strings.HasPrefix(pi.names[i], "bpf_") {
			continue
		}
		ast.Inspect(f, func(n ast.Node) bool {
			if sel, ok := n.(*ast.SelectorExpr); ok {
				if t, ok := tags[sel.Sel.Name]; ok {
					seen[t] = true
				}
			}
			return true
		})
	}
	var out []string
	for t := range seen {
		out = append(out, t)
	}
	sort.Strings(out)
	return out
}

// findSpecMapRefs: map names the loader looks up in the collection spec (`spec.Maps["name"]`).
func findSpecMapRefs(pi *pkgInfo) []string {
	seen := map[string]bool{}
	for _, f := range pi.files {
		ast.Inspect(f, func(n ast.Node) bool {
			ix, ok := n.(*ast.IndexExpr)
			if !ok {
				return true
			}
			sel, ok := ix.X.(*ast.SelectorExpr)
			if !ok || sel.Sel.Name != "Maps" {
				return true
			}
			if bl, ok := ix.Index.(*ast.BasicLit); ok && bl.Kind == token.STRING {
				if v, err := strconv.Unquote(bl.Value); err == nil {
					seen[v] = true
				}
			}
			return true
		})
	}
	var out []string
	for t := range seen {
		out = append(out, t)
	}
	sort.Strings(out)
	return out
}

// findNewMapTypes: `ebpf.MapSpec{Type: ebpf.<T>, …}` literals: (enclosing function, T).
func findNewMapTypes(pi *pkgInfo) [][2]string {
	var out [][2]string
	for _, f := range pi.files {
		for _, d := range f.Decls {
			fd, ok := d.(*ast.FuncDecl)
			if !ok || fd.Body == nil {
				continue
			}
			ast.Inspect(fd.Body, func(n ast.Node) bool {
				cl, ok := n.(*ast.CompositeLit)
				if !ok {
					return true
				}
				if sel, ok := cl.Type.(*ast.SelectorExpr); !ok || sel.Sel.Name != "MapSpec" {
					return true
				}
				for _, el := range cl.Elts {
					if kv, ok := el.(*ast.KeyValueExpr); ok {
						if k, ok := kv.Key.(*ast.Ident); ok && k.Name == "Type" {
							if sel, ok := kv.Value.(*ast.SelectorExpr); ok {
								out = append(out, [2]string{fd.Name.Name, sel.Sel.Name})
							}
						}
					}
				}
				return true
			})
		}
	}
	return out
}

// ------------------------------------------------------------------------------------------ arch check
// goTypeExpr prints a plain-data type as standalone Go source (named struct types of package control
// expanded in place), so that the real compiler can be asked for its layout on every GOARCH.
func goTypeExpr(t types.Type) string {
	if n, ok := t.(*types.Named); ok && n.Obj().Pkg() != nil && n.Obj().Pkg().Path() == "structs" {
		return "structs.HostLayout"
	}
	switch u := t.Underlying().(type) {
	case *types.Basic:
		return u.Name()
	case *types.Array:
		return fmt.Sprintf("[%d]%s", u.Len(), goTypeExpr(u.Elem()))
	case *types.Struct:
		var b strings.Builder
		b.WriteString("struct {")
		for i := 0; i < u.NumFields(); i++ {
			fmt.Fprintf(&b, " %s %s;", u.Field(i).Name(), goTypeExpr(u.Field(i).Type()))
		}
		b.WriteString(" }")
		return b.String()
	}
	return "struct{}"
}

// writeArchCheck writes <dir>/archcheck: one package whose compilation for GOARCH=a succeeds iff the
// gc compiler's Sizeof/Alignof/Offsetof of every type agree with the translator's table for a.
func writeArchCheck(dir string, types_ []namedType, tables map[string][]Rec) error {
	d := filepath.Join(dir, "archcheck")
	if err := os.RemoveAll(d); err != nil {
		return err
	}
	if err := os.MkdirAll(d, 0o755); err != nil {
		return err
	}
	if err := os.WriteFile(filepath.Join(d, "go.mod"), []byte("module archcheck\n\ngo 1.23\n"), 0o644); err != nil {
		return err
	}
	ident := func(name string) string { return "T_" + strings.NewReplacer(".", "_").Replace(name) }
	var b strings.Builder
	b.WriteString("// GENERATED by translators/c19_go: the plain-data types of package control, standalone.\npackage archcheck\n\nimport \"structs\"\n\nvar _ structs.HostLayout\n\n")
	for _, nt := range types_ {
		fmt.Fprintf(&b, "type %s %s\n", ident(nt.name), goTypeExpr(nt.t))
	}
	if err := os.WriteFile(filepath.Join(d, "types.go"), []byte(b.String()), 0o644); err != nil {
		return err
	}
	for arch, recs := range tables {
		b.Reset()
		fmt.Fprintf(&b, "//go:build %s\n\n// GENERATED: compiles iff gc's layout for GOARCH=%s equals the go/types table.\npackage archcheck\n\nimport \"unsafe\"\n\n", arch, arch)
		for _, r := range recs {
			id := ident(r.Name)
			fmt.Fprintf(&b, "var v_%s %s\n", id, id)
			fmt.Fprintf(&b, "var _ = [1]struct{}{}[unsafe.Sizeof(v_%s)-%d]\n", id, r.Size)
			fmt.Fprintf(&b, "var _ = [1]struct{}{}[unsafe.Alignof(v_%s)-%d]\n", id, r.Align)
			for _, l := range r.Leaves {
				if l.Blank || strings.Contains(l.Path, "_#") {
					continue
				}
				parts := strings.Split(l.Path, ".")
				var terms []string
				for i := range parts {
					terms = append(terms, fmt.Sprintf("unsafe.Offsetof(v_%s.%s)", id, strings.Join(parts[:i+1], ".")))
				}
				fmt.Fprintf(&b, "var _ = [1]struct{}{}[%s-%d]\n", strings.Join(terms, "+"), l.Off)
				fmt.Fprintf(&b, "var _ = [1]struct{}{}[unsafe.Sizeof(v_%s.%s)-%d]\n", id, l.Path, l.Esize*l.Count)
			}
		}
		if err := os.WriteFile(filepath.Join(d, "check_"+arch+".go"), []byte(b.String()), 0o644); err != nil {
			return err
		}
	}
	return nil
}

// nativeEndianTable: for every release GOARCH, which files of pkg/ebpf_internal that declare
// `NativeEndian` are selected by their build constraints, and the byte order they choose
// ("little"/"big"; "none"/"both" when not exactly one file is selected).
func nativeEndianTable(repo string) [][2]string {
	dir := filepath.Join(repo, "pkg", "ebpf_internal")
	var out [][2]string
	ents, _ := os.ReadDir(dir)
	for _, a := range arches {
		ctx := build.Default
		ctx.GOOS, ctx.GOARCH, ctx.CgoEnabled, ctx.BuildTags = "linux", a, false, nil
		var found []string
		for _, e := range ents {
			n := e.Name()
			if !strings.HasSuffix(n, ".go") || strings.HasSuffix(n, "_test.go") {
				continue
			}
			if ok, err := ctx.MatchFile(dir, n); err != nil || !ok {
				continue
			}
			fs := token.NewFileSet()
			f, err := parser.ParseFile(fs, filepath.Join(dir, n), nil, 0)
			if err != nil {
				continue
			}
			for _, d := range f.Decls {
				gd, ok := d.(*ast.GenDecl)
				if !ok || gd.Tok != token.VAR {
					continue
				}
				for _, sp := range gd.Specs {
					vs := sp.(*ast.ValueSpec)
					for i, nm := range vs.Names {
						if nm.Name == "NativeEndian" && i < len(vs.Values) {
							if sel, ok := vs.Values[i].(*ast.SelectorExpr); ok {
								switch sel.Sel.Name {
								case "BigEndian":
									found = append(found, "big")
								case "LittleEndian":
									found = append(found, "little")
								default:
									found = append(found, "other")
								}
							}
						}
					}
				}
			}
		}
		v := "none"
		if len(found) == 1 {
			v = found[0]
		} else if len(found) > 1 {
			v = "both"
		}
		out = append(out, [2]string{a, v})
	}
	return out
}

type constRow struct {
	Name string `json:"name"`
	Val  string `json:"val"`
	Var  bool   `json:"var"`
}

func intConsts(pi *pkgInfo, prefix string, rows map[string]constRow) {
	sc := pi.pkg.Scope()
	for _, n := range sc.Names() {
		if c, ok := sc.Lookup(n).(*types.Const); ok {
			if v := constant.ToInt(c.Val()); v.Kind() == constant.Int {
				rows[prefix+n] = constRow{prefix + n, v.ExactString(), false}
			}
		}
	}
	// constants declared inside functions: `<prefix><func>.<name>`
	for _, f := range pi.files {
		for _, d := range f.Decls {
			fd, ok := d.(*ast.FuncDecl)
			if !ok || fd.Body == nil {
				continue
			}
			ast.Inspect(fd.Body, func(n ast.Node) bool {
				gd, ok := n.(*ast.GenDecl)
				if !ok || gd.Tok != token.CONST {
					return true
				}
				for _, sp := range gd.Specs {
					for _, id := range sp.(*ast.ValueSpec).Names {
						if c, ok := pi.info.Defs[id].(*types.Const); ok {
							if v := constant.ToInt(c.Val()); v.Kind() == constant.Int {
								nm := prefix + fd.Name.Name + "." + id.Name
								rows[nm] = constRow{nm, v.ExactString(), false}
							}
						}
					}
				}
				return true
			})
		}
	}
	// package-level variables with a constant integer initialiser (consts.MaxMatchSetLen)
	for _, f := range pi.files {
		for _, d := range f.Decls {
			gd, ok := d.(*ast.GenDecl)
			if !ok || gd.Tok != token.VAR {
				continue
			}
			for _, s := range gd.Specs {
				vs := s.(*ast.ValueSpec)
				if len(vs.Values) != len(vs.Names) {
					continue
				}
				for i, id := range vs.Names {
					if tv, ok := pi.info.Types[vs.Values[i]]; ok && tv.Value != nil {
						if v := constant.ToInt(tv.Value); v.Kind() == constant.Int {
							rows[prefix+id.Name] = constRow{prefix + id.Name, v.ExactString(), true}
						}
					}
				}
			}
		}
	}
}

// ------------------------------------------------------------------------------------------ output

func leanStr(s string) string { return "n!" + strconv.Quote(s) }

func leanRec(r Rec) string {
	var b strings.Builder
	fmt.Fprintf(&b, "  ⟨%s, %d, %d, [\n", leanStr(r.Name), r.Size, r.Align)
	for i, l := range r.Leaves {
		sep := ","
		if i == len(r.Leaves)-1 {
			sep = ""
		}
		fmt.Fprintf(&b, "    ⟨%s, %d, %d, %d, .%s, %v⟩%s\n", leanStr(l.Path), l.Off, l.Esize, l.Count, l.Cls, l.Blank, sep)
	}
	b.WriteString("  ]⟩")
	return b.String()
}

func leanRecs(rs []Rec) string {
	parts := make([]string, len(rs))
	for i, r := range rs {
		parts[i] = leanRec(r)
	}
	return "[\n" + strings.Join(parts, ",\n") + "]"
}

func leanStrs(ss []string) string {
	q := make([]string, len(ss))
	for i, s := range ss {
		q[i] = leanStr(s)
	}
	return "[" + strings.Join(q, ", ") + "]"
}

type specNV struct {
	Name  string `json:"name"`
	Value uint32 `json:"value"`
}
type spec struct {
	MatchTypes []string `json:"match_types"`
	L4Proto    []specNV `json:"l4_proto"`
	IpVersion  []specNV `json:"ip_version"`
	Outbound   []specNV `json:"outbound"`
}

func leanNVs(nv []specNV) string {
	q := make([]string, len(nv))
	for i, x := range nv {
		q[i] = fmt.Sprintf("(%s, %d)", leanStr(x.Name), x.Value)
	}
	return "[" + strings.Join(q, ", ") + "]"
}

func must(err error) {
	if err != nil {
		fmt.Fprintln(os.Stderr, "c19_go:", err)
		os.Exit(3)
	}
}

func main() {
	repo, outdir, leandir := os.Args[1], os.Args[2], os.Args[3]
	must(os.MkdirAll(outdir, 0o755))
	must(os.MkdirAll(leandir, 0o755))

	stubL := &loader{repo: repo, fset: token.NewFileSet(), tags: []string{"dae_stub_ebpf"}, cache: map[string]*pkgInfo{}}
	realL := &loader{repo: repo, fset: token.NewFileSet(), tags: nil, cache: map[string]*pkgInfo{}}
	stub, err := stubL.load("control")
	must(err)
	realP, err := realL.load("control")
	must(err)
	consts, err := stubL.load("common/consts")
	must(err)

	// files that exist only in the real build
	stubFiles := map[string]bool{}
	for _, n := range stub.names {
		stubFiles[n] = true
	}
	realOnly := map[string]bool{}
	for _, n := range realP.names {
		if !stubFiles[n] {
			realOnly[n] = true
		}
	}
	types_ := dataStructs(stub, "stub", nil)
	types_ = append(types_, dataStructs(realP, "real", realOnly)...)
	if pt := findParamLiteral(realP); pt != nil {
		types_ = append(types_, namedType{"real.PARAM", pt})
	}
	if len(types_) == 0 {
		must(fmt.Errorf("no bpf* data struct types found"))
	}

	// layouts per arch, grouped into classes of identical layouts
	type class struct {
		Arches []string `json:"arches"`
		Recs   []Rec    `json:"recs"`
	}
	var classes []class
	for _, a := range arches {
		sizes := types.SizesFor("gc", a)
		if sizes == nil {
			fmt.Fprintln(os.Stderr, "c19_go: unknown arch", a)
			continue
		}
		var recs []Rec
		for _, nt := range types_ {
			recs = append(recs, recOf(nt.name, nt.t, sizes, false))
		}
		placed := false
		for i := range classes {
			if reflect.DeepEqual(classes[i].Recs, recs) {
				classes[i].Arches = append(classes[i].Arches, a)
				placed = true
				break
			}
		}
		if !placed {
			classes = append(classes, class{[]string{a}, recs})
		}
	}
	var packed []Rec
	for _, nt := range types_ {
		packed = append(packed, recOf(nt.name, nt.t, types.SizesFor("gc", "amd64"), true))
	}

	rows := map[string]constRow{}
	intConsts(consts, "consts.", rows)
	intConsts(realP, "control.", rows)
	intConsts(stub, "control.", rows)
	var names []string
	for n := range rows {
		names = append(names, n)
	}
	sort.Strings(names)

	var sp spec
	raw, err := os.ReadFile(filepath.Join(repo, "common", "consts", "ebpf_sync_spec.json"))
	must(err)
	must(json.Unmarshal(raw, &sp))

	mapTags, progTags, varTags := ebpfTags(stub, "bpfMaps"), ebpfTags(stub, "bpfPrograms"), ebpfTags(stub, "bpfVariables")
	mapIOs := findMapIO(stub, stubL.fset)
	listenUse := findListenUse(stub)
	fieldLits := findFieldLiterals(stub, stubL.fset)
	paramInit := findParamInit(realP)
	endian := nativeEndianTable(repo)
	cbShapes := findCallbackIdShape(stub)
	progAttach := findProgAttach(stub)
	progUses := findProgUses(stub)
	specMapRefs := findSpecMapRefs(stub)
	newMapTypes := findNewMapTypes(realP)
	// construction sites of the shared types + helper constructors (sites.go): the stub build's files, plus
	// the files that exist only in the real build (bpf_utils.go: cidrToBpfLpmKey, bpfPortRange.Encode, …)
	buildSites := append(findBuildSites(stub, stubL.fset, "stub", nil), findBuildSites(realP, realL.fset, "real", realOnly)...)
	// helper constructors: every file of either build; `builds` says which builds contain the function
	realFiles := map[string]bool{}
	for _, n := range realP.names {
		realFiles[n] = true
	}
	ctorSigs := mergeCtorSigs(findCtorSigs(stub, stubL.fset, "stub", nil), findCtorSigs(realP, realL.fset, "real", nil), stubFiles, realFiles)
	// types the control plane hands to the kernel: as a map key (any method), or as a value it WRITES
	kb := map[string]bool{}
	for _, c := range mapIOs {
		if c.TypeName == "" {
			continue
		}
		if c.Role == 0 || strings.Contains(c.Via, "Update") || strings.Contains(c.Via, "Put") || strings.Contains(c.Via, "newLpmMap") {
			kb[c.TypeName] = true
		}
	}
	var kernelBound []string
	for k := range kb {
		kernelBound = append(kernelBound, k)
	}
	sort.Strings(kernelBound)
	archTables := map[string][]Rec{}
	for _, c := range classes {
		for _, a := range c.Arches {
			archTables[a] = c.Recs
		}
	}
	must(writeArchCheck(outdir, types_, archTables))

	// ---- json
	js := map[string]any{"classes": classes, "packed": packed, "consts": func() []constRow {
		var o []constRow
		for _, n := range names {
			o = append(o, rows[n])
		}
		return o
	}(), "mapTags": mapTags, "progTags": progTags, "varTags": varTags, "spec": sp,
		"mapIO": mapIOs, "listenUse": listenUse, "fieldLiterals": fieldLits, "paramInit": paramInit, "nativeEndian": endian,
		"progAttach": progAttach, "progUses": progUses, "specMapRefs": specMapRefs, "newMapTypes": newMapTypes,
		"buildSites": buildSites, "ctorSigs": ctorSigs, "kernelBound": kernelBound}
	jb, _ := json.MarshalIndent(js, "", " ")
	must(os.WriteFile(filepath.Join(outdir, "c19_go.json"), jb, 0o644))

	// ---- Lean
	var b strings.Builder
	b.WriteString("import DaeVerif.C19.Types\n/-! GENERATED by translators/c19_go/main.go from control/*.go (go/types). Do not edit. -/\n")
	b.WriteString("namespace DaeVerif.C19.Gen\nopen DaeVerif.C19\n\n")
	b.WriteString("/-- memory layouts (gc), one entry per class of GOARCHes with identical layouts -/\n")
	b.WriteString("def goLayouts : List (List Name × List Rec) := [\n")
	for i, c := range classes {
		fmt.Fprintf(&b, " (%s, %s)", leanStrs(c.Arches), leanRecs(c.Recs))
		if i != len(classes)-1 {
			b.WriteString(",\n")
		}
	}
	b.WriteString("]\n\n/-- encoding/binary layout (what cilium/ebpf's sysenc.Marshal writes) -/\n")
	fmt.Fprintf(&b, "def goPacked : List Rec := %s\n\n", leanRecs(packed))
	fmt.Fprintf(&b, "def goMapTags : List Name := %s\n", leanStrs(mapTags))
	fmt.Fprintf(&b, "def goProgTags : List Name := %s\n", leanStrs(progTags))
	fmt.Fprintf(&b, "def goVarTags : List Name := %s\n", leanStrs(varTags))
	b.WriteString("\n/-- every place where package control hands a key (role 0) or value (role 1) to a map:\n(map, via, role, translator name of the Go struct type or `n!\"\"`, size of a plain-data type or 0, constant value or -1, kind of the variable the result is stored in (`udp`/`tcp`/``), type, where) -/\n")
	b.WriteString("def goMapIO : List MapIO := [\n")
	for i, c := range mapIOs {
		cv := "-1"
		if c.Const != "" {
			cv = c.Const
		}
		kind := ""
		la := strings.ToLower(c.Assigned)
		if strings.Contains(la, "udp") {
			kind = "udp"
		} else if strings.Contains(la, "tcp") {
			kind = "tcp"
		}
		fmt.Fprintf(&b, "  ⟨%s, %d, %s, %d, %s, %s, %s, %s⟩", leanStr(c.Map), c.Role, leanStr(c.TypeName), c.Size, cv, leanStr(kind),
			strconv.Quote(c.Via+" "+c.Type), strconv.Quote(c.Where))
		if i != len(mapIOs)-1 {
			b.WriteString(",\n")
		}
	}
	b.WriteString("]\n\n/-- `ListenSocketMap.Update(consts.K, uint64(<file>.Fd()), …)`: (field of the listener the file was duplicated from, key constant) -/\n")
	b.WriteString("def goListenUse : List (Name × Name) := [")
	for i, l := range listenUse {
		if i > 0 {
			b.WriteString(", ")
		}
		fmt.Fprintf(&b, "(%s, %s)", leanStr(l[0]), leanStr(l[1]))
	}
	b.WriteString("]\n\n/-- comparisons / switch cases between a field of a `bpf*` struct and an integer constant: (type, field, value, where, qualified name of the constant operand or empty for a bare literal) -/\n")
	b.WriteString("def goFieldLiterals : List (Name × Name × Int × String × Name) := [")
	for i, l := range fieldLits {
		if i > 0 {
			b.WriteString(",\n  ")
		}
		fmt.Fprintf(&b, "(%s, %s, %s, %s, %s)", leanStr(l.TypeName), leanStr(l.Field), l.Value, strconv.Quote(l.Where), leanStr(l.Const))
	}
	b.WriteString("]\n\n/-- identifiers mentioned by the initialiser of each field of the PARAM literal, in field order -/\n")
	b.WriteString("def goParamInit : List (Name × List Name) := [")
	for i, r := range paramInit {
		if i > 0 {
			b.WriteString(",\n  ")
		}
		fmt.Fprintf(&b, "(%s, %s)", leanStr(r[0]), leanStrs(r[1:]))
	}
	b.WriteString("]\n\n/-- byte order of `internal.NativeEndian` per release GOARCH, from the build constraints of pkg/ebpf_internal (`little`/`big`/`none`/`both`) -/\n")
	b.WriteString("def goNativeEndian : List (Name × Name) := [")
	for i, r := range endian {
		if i > 0 {
			b.WriteString(", ")
		}
		fmt.Fprintf(&b, "(%s, %s)", leanStr(r[0]), leanStr(r[1]))
	}
	b.WriteString("]\n\n/-- `{Prog: bpf.<P>, Attach: ebpf.<A>}` literals: (program, attach type) -/\n")
	pairs := func(ps [][2]string) string {
		q := make([]string, len(ps))
		for i, p := range ps {
			q[i] = fmt.Sprintf("(%s, %s)", leanStr(p[0]), leanStr(p[1]))
		}
		return "[" + strings.Join(q, ", ") + "]"
	}
	fmt.Fprintf(&b, "def goProgAttach : List (Name × Name) := %s\n\n", pairs(progAttach))
	fmt.Fprintf(&b, "/-- how each call site of outboundAliveChangeCallback forms the outbound id: `index` (= position in the slice whose indices become the rule ids), `index+k`, `other` -/\ndef goCallbackIdShapes : List Name := %s\n\n", leanStrs(cbShapes))
	fmt.Fprintf(&b, "/-- programs package control refers to outside the declaration files -/\ndef goProgUses : List Name := %s\n\n", leanStrs(progUses))
	fmt.Fprintf(&b, "/-- map names the loader looks up as `spec.Maps[\"…\"]` -/\ndef goSpecMapRefs : List Name := %s\n\n", leanStrs(specMapRefs))
	fmt.Fprintf(&b, "/-- `ebpf.MapSpec{Type: ebpf.<T>}` literals of the real build: (function, T) -/\ndef goNewMapTypes : List (Name × Name) := %s\n", pairs(newMapTypes))
	boolL := func(v bool) string {
		if v {
			return "true"
		}
		return "false"
	}
	b.WriteString("\n/-- every place where package control constructs or modifies a value of a `bpf*` data type other than by a map read (translators/c19_go/sites.go): (function, type, kind lit/zero/store/cast/slice, fields set, address handed to a call, returned, where) -/\n")
	b.WriteString("def goBuildSites : List BuildSite := [\n")
	for i, c := range buildSites {
		fmt.Fprintf(&b, "  ⟨%s, %s, %s, %s, %s, %s, %s⟩", leanStr(c.Func), leanStr(c.Type), leanStr(c.Kind), leanStrs(c.Fields), boolL(c.ToCall), boolL(c.Returns), strconv.Quote(c.Where))
		if i != len(buildSites)-1 {
			b.WriteString(",\n")
		}
	}
	b.WriteString("]\n\n/-- package-level functions returning a `bpf*` data type: (function, type, result is a pointer, parameter types as written, number of results) -/\n")
	b.WriteString("def goCtorSigs : List CtorSig := [\n")
	for i, c := range ctorSigs {
		fmt.Fprintf(&b, "  ⟨%s, %s, %s, %s, %d⟩", leanStr(c.Func), leanStr(c.Type), boolL(c.Ptr), leanStrs(c.Params), c.Nres)
		if i != len(ctorSigs)-1 {
			b.WriteString(",\n")
		}
	}
	fmt.Fprintf(&b, "]\n\n/-- struct types the control plane hands to the kernel as a map key, or as a value it writes (from goMapIO) -/\ndef goKernelBoundTypes : List Name := %s\n", leanStrs(kernelBound))
	b.WriteString("\nend DaeVerif.C19.Gen\n")
	must(os.WriteFile(filepath.Join(leandir, "GoLayout.lean"), []byte(b.String()), 0o644))

	b.Reset()
	b.WriteString("import DaeVerif.C19.Types\n/-! GENERATED by translators/c19_go/main.go. Do not edit. -/\n")
	b.WriteString("namespace DaeVerif.C19.Gen\nopen DaeVerif.C19\n\n")
	b.WriteString("def goConsts : List (Name × Int) := [\n")
	for i, n := range names {
		fmt.Fprintf(&b, "  (%s, %s)", leanStr(n), rows[n].Val)
		if i != len(names)-1 {
			b.WriteString(",\n")
		}
	}
	b.WriteString("]\n\n/-- common/consts/ebpf_sync_spec.json -/\n")
	fmt.Fprintf(&b, "def specData : Spec := ⟨%s, %s, %s, %s⟩\n", leanStrs(sp.MatchTypes), leanNVs(sp.L4Proto), leanNVs(sp.IpVersion), leanNVs(sp.Outbound))
	b.WriteString("\nend DaeVerif.C19.Gen\n")
	must(os.WriteFile(filepath.Join(leandir, "GoConsts.lean"), []byte(b.String()), 0o644))
	fmt.Printf("c19 gen_go: %d struct types, %d layout classes, %d constants, %d/%d/%d tags\n",
		len(types_), len(classes), len(names), len(mapTags), len(progTags), len(varTags))
}
