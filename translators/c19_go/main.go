// C19 translator, Go side.  Regenerated on every check run; nothing in here is a fact about dae.
//
// It type-checks package control (twice: with the build tag dae_stub_ebpf = the stub build, and
// without it = the real build minus the bpf2go output that cannot be produced offline) and package
// common/consts from /repo's CURRENT sources with go/types, module-internal imports resolved from
// source, every other import replaced by an empty package (type errors are expected and ignored:
// constant values and plain-data struct types do not depend on them), and writes
//
//   * the memory layout (types.SizesFor("gc", GOARCH): size, alignment, every scalar/array leaf with
//     offset, element width, element count, signedness class, blank-ness) of every pointer-free
//     struct type `bpf*`/`_bpf*` of package control, for every GOARCH of dae's release matrix,
//     grouped into classes of identical layouts; and the encoding/binary ("packed", no alignment)
//     layout, which is what cilium/ebpf's sysenc puts on the wire for such a value;
//   * the same for the anonymous struct literal stored under "PARAM" in fullLoadBpfObjects;
//   * every package-level integer constant (and variable with a constant initialiser) of the two
//     packages;  the `ebpf:"…"` tags of bpfMaps / bpfPrograms / bpfVariables;
//   * the JSON spec common/consts/ebpf_sync_spec.json as data.
//
// usage: go run main.go <repo> <outdir> <leandir>
package main

import (
	"encoding/json"
	"fmt"
	"go/ast"
	"go/build"
	"go/constant"
	"go/importer"
	"go/parser"
	"go/token"
	"go/types"
	"os"
	"path/filepath"
	"reflect"
	"sort"
	"strconv"
	"strings"
)

const modPath = "github.com/daeuniverse/dae"

var arches = []string{"amd64", "arm64", "riscv64", "loong64", "mips64", "mips64le", "ppc64", "ppc64le", "s390x", "386", "arm", "mipsle", "mips"}

type loader struct {
	repo  string
	fset  *token.FileSet
	tags  []string
	cache map[string]*pkgInfo
	timePkg *types.Package
}

type pkgInfo struct {
	pkg   *types.Package
	info  *types.Info
	files []*ast.File
	names []string
}

func (l *loader) Import(path string) (*types.Package, error) { return l.ImportFrom(path, "", 0) }

func (l *loader) ImportFrom(path, dir string, mode types.ImportMode) (*types.Package, error) {
	if path == "unsafe" {
		return types.Unsafe, nil
	}
	if path == "structs" {
		p := types.NewPackage("structs", "structs")
		tn := types.NewTypeName(token.NoPos, p, "HostLayout", nil)
		types.NewNamed(tn, types.NewStruct(nil, nil), nil)
		p.Scope().Insert(tn)
		p.MarkComplete()
		return p, nil
	}
	if path == "time" {
		// the real standard-library package, type-checked from GOROOT source: the control plane
		// writes its mirrors of the kernel's nanosecond limits as `N * time.Second`
		if l.timePkg == nil {
			p, err := importer.ForCompiler(l.fset, "source", nil).Import("time")
			if err != nil {
				return nil, err
			}
			l.timePkg = p
		}
		return l.timePkg, nil
	}
	if path == modPath || strings.HasPrefix(path, modPath+"/") {
		pi, err := l.load(strings.TrimPrefix(strings.TrimPrefix(path, modPath), "/"))
		if err != nil {
			return nil, err
		}
		return pi.pkg, nil
	}
	name := path[strings.LastIndex(path, "/")+1:]
	if len(name) > 1 && name[0] == 'v' {
		if _, err := strconv.Atoi(name[1:]); err == nil { // …/foo/v2
			rest := path[:strings.LastIndex(path, "/")]
			name = rest[strings.LastIndex(rest, "/")+1:]
		}
	}
	name = strings.TrimPrefix(name, "go-")
	name = strings.ReplaceAll(name, "-", "_")
	name = strings.ReplaceAll(name, ".", "_")
	p := types.NewPackage(path, name)
	p.MarkComplete()
	return p, nil
}

func (l *loader) load(rel string) (*pkgInfo, error) {
	if pi, ok := l.cache[rel]; ok {
		if pi == nil {
			return nil, fmt.Errorf("import cycle through %s", rel)
		}
		return pi, nil
	}
	l.cache[rel] = nil
	dir := filepath.Join(l.repo, rel)
	ctx := build.Default
	ctx.GOOS, ctx.GOARCH, ctx.CgoEnabled = "linux", "amd64", false
	ctx.BuildTags = l.tags
	ents, err := os.ReadDir(dir)
	if err != nil {
		return nil, err
	}
	pi := &pkgInfo{}
	for _, e := range ents {
		n := e.Name()
		if e.IsDir() || !strings.HasSuffix(n, ".go") || strings.HasSuffix(n, "_test.go") {
			continue
		}
		if ok, err := ctx.MatchFile(dir, n); err != nil || !ok {
			continue
		}
		f, err := parser.ParseFile(l.fset, filepath.Join(dir, n), nil, parser.SkipObjectResolution)
		if err != nil {
			return nil, err
		}
		pi.files = append(pi.files, f)
		pi.names = append(pi.names, n)
	}
	if len(pi.files) == 0 {
		p := types.NewPackage(modPath+"/"+rel, filepath.Base(rel))
		p.MarkComplete()
		pi.pkg = p
		l.cache[rel] = pi
		return pi, nil
	}
	pi.info = &types.Info{Types: map[ast.Expr]types.TypeAndValue{}, Defs: map[*ast.Ident]types.Object{}}
	conf := types.Config{Importer: l, Error: func(error) {}, Sizes: types.SizesFor("gc", "amd64"), FakeImportC: true}
	pkg, _ := conf.Check(modPath+"/"+rel, l.fset, pi.files, pi.info)
	pi.pkg = pkg
	l.cache[rel] = pi
	return pi, nil
}

// ------------------------------------------------------------------------------------------ layouts

type Leaf struct {
	Path  string `json:"path"`
	Off   int64  `json:"off"`
	Esize int64  `json:"esize"`
	Count int64  `json:"count"`
	Cls   string `json:"cls"`
	Blank bool   `json:"blank"`
}

type Rec struct {
	Name   string `json:"name"`
	Size   int64  `json:"size"`
	Align  int64  `json:"align"`
	Leaves []Leaf `json:"leaves"`
}

// plain reports whether t is made of fixed-size integers/bools, arrays and structs of those only.
func plain(t types.Type) bool {
	switch u := t.Underlying().(type) {
	case *types.Basic:
		switch u.Kind() {
		case types.Bool, types.Int8, types.Int16, types.Int32, types.Int64,
			types.Uint8, types.Uint16, types.Uint32, types.Uint64:
			return true
		}
		return false
	case *types.Array:
		return plain(u.Elem())
	case *types.Struct:
		for i := 0; i < u.NumFields(); i++ {
			if !plain(u.Field(i).Type()) {
				return false
			}
		}
		return true
	}
	return false
}

func basicCls(b *types.Basic) string {
	switch b.Kind() {
	case types.Bool:
		return "bool"
	case types.Int8, types.Int16, types.Int32, types.Int64:
		return "sint"
	}
	return "uint"
}

// flatten appends the scalar/array leaves of struct type st located at base offset `base`.
// packed = encoding/binary layout (no alignment), otherwise sizes' layout.
func flatten(st *types.Struct, sizes types.Sizes, packed bool, base int64, prefix string, blank bool, out *[]Leaf) int64 {
	fields := make([]*types.Var, st.NumFields())
	for i := range fields {
		fields[i] = st.Field(i)
	}
	var offs []int64
	if !packed {
		offs = sizes.Offsetsof(fields)
	}
	cur := base
	for i, f := range fields {
		off := cur
		if !packed {
			off = base + offs[i]
		}
		name := f.Name()
		isBlank := blank || name == "_"
		if name == "_" {
			name = "_#" + strconv.Itoa(i)
		}
		sz := sizeOf(f.Type(), sizes, packed)
		emitLeaves(f.Type(), sizes, packed, off, prefix+name, isBlank, out)
		cur = off + sz
	}
	return cur - base
}

func sizeOf(t types.Type, sizes types.Sizes, packed bool) int64 {
	if !packed {
		return sizes.Sizeof(t)
	}
	switch u := t.Underlying().(type) {
	case *types.Array:
		return u.Len() * sizeOf(u.Elem(), sizes, packed)
	case *types.Struct:
		var s int64
		for i := 0; i < u.NumFields(); i++ {
			s += sizeOf(u.Field(i).Type(), sizes, packed)
		}
		return s
	}
	return sizes.Sizeof(t)
}

func emitLeaves(t types.Type, sizes types.Sizes, packed bool, off int64, path string, blank bool, out *[]Leaf) {
	switch u := t.Underlying().(type) {
	case *types.Struct:
		flatten(u, sizes, packed, off, path+".", blank, out)
	case *types.Array:
		count := u.Len()
		et := u.Elem()
		for {
			if a, ok := et.Underlying().(*types.Array); ok {
				count *= a.Len()
				et = a.Elem()
				continue
			}
			break
		}
		if b, ok := et.Underlying().(*types.Basic); ok {
			*out = append(*out, Leaf{path, off, sizeOf(et, sizes, packed), count, basicCls(b), blank})
		} else {
			*out = append(*out, Leaf{path, off, sizeOf(et, sizes, packed), count, "recd", blank})
		}
	case *types.Basic:
		*out = append(*out, Leaf{path, off, sizes.Sizeof(t), 1, basicCls(u), blank})
	}
}

func recOf(name string, t types.Type, sizes types.Sizes, packed bool) Rec {
	st := t.Underlying().(*types.Struct)
	var leaves []Leaf
	sz := flatten(st, sizes, packed, 0, "", false, &leaves)
	r := Rec{Name: name, Leaves: leaves}
	if packed {
		r.Size, r.Align = sz, 1
	} else {
		r.Size, r.Align = sizes.Sizeof(t), sizes.Alignof(t)
	}
	// zero-size leaves (structs.HostLayout markers) carry no bytes
	kept := r.Leaves[:0]
	for _, l := range r.Leaves {
		if l.Esize*l.Count > 0 {
			kept = append(kept, l)
		}
	}
	r.Leaves = kept
	return r
}

type namedType struct {
	name string
	t    types.Type
}

func dataStructs(pi *pkgInfo, origin string, onlyFiles map[string]bool) []namedType {
	var out []namedType
	for i, f := range pi.files {
		if onlyFiles != nil && !onlyFiles[pi.names[i]] {
			continue
		}
		for _, d := range f.Decls {
			gd, ok := d.(*ast.GenDecl)
			if !ok || gd.Tok != token.TYPE {
				continue
			}
			for _, s := range gd.Specs {
				ts := s.(*ast.TypeSpec)
				n := ts.Name.Name
				if !(strings.HasPrefix(n, "bpf") || strings.HasPrefix(n, "_bpf")) {
					continue
				}
				obj := pi.info.Defs[ts.Name]
				if obj == nil {
					continue
				}
				st, ok := obj.Type().Underlying().(*types.Struct)
				if !ok || st.NumFields() == 0 || !plain(obj.Type()) {
					continue
				}
				out = append(out, namedType{origin + "." + n, obj.Type()})
			}
		}
	}
	return out
}

// findParamLiteral returns the type of the composite literal stored under the key "PARAM" of a
// map[string]interface{} literal (fullLoadBpfObjects).
func findParamLiteral(pi *pkgInfo) types.Type {
	var found types.Type
	for _, f := range pi.files {
		ast.Inspect(f, func(n ast.Node) bool {
			kv, ok := n.(*ast.KeyValueExpr)
			if !ok {
				return true
			}
			bl, ok := kv.Key.(*ast.BasicLit)
			if !ok || bl.Kind != token.STRING || bl.Value != `"PARAM"` {
				return true
			}
			if cl, ok := kv.Value.(*ast.CompositeLit); ok {
				if tv, ok := pi.info.Types[cl]; ok && tv.Type != nil {
					if _, ok := tv.Type.Underlying().(*types.Struct); ok {
						found = tv.Type
					}
				}
			}
			return true
		})
	}
	return found
}

func ebpfTags(pi *pkgInfo, typeName string) []string {
	obj := pi.pkg.Scope().Lookup(typeName)
	if obj == nil {
		return nil
	}
	st, ok := obj.Type().Underlying().(*types.Struct)
	if !ok {
		return nil
	}
	var out []string
	for i := 0; i < st.NumFields(); i++ {
		if v := reflect.StructTag(st.Tag(i)).Get("ebpf"); v != "" {
			out = append(out, v)
		}
	}
	return out
}

// mapCall is one call `<expr>.<MapField>.<Method>(args…)` on a field of bpfMaps found in package
// control: which map (ebpf tag), which method, and for the key / value argument its static Go type and
// size (pointers dereferenced; 0 when the type is not plain data, e.g. a slice or an interface).
type mapCall struct {
	Map    string `json:"map"`
	Method string `json:"method"`
	Arg    int    `json:"arg"`
	Size   int64  `json:"size"`
	Type   string `json:"type"`
	Where  string `json:"where"`
}

func mapFieldTags(pi *pkgInfo) map[string]string {
	out := map[string]string{}
	obj := pi.pkg.Scope().Lookup("bpfMaps")
	if obj == nil {
		return out
	}
	st, ok := obj.Type().Underlying().(*types.Struct)
	if !ok {
		return out
	}
	for i := 0; i < st.NumFields(); i++ {
		if v := reflect.StructTag(st.Tag(i)).Get("ebpf"); v != "" {
			out[st.Field(i).Name()] = v
		}
	}
	return out
}

func findMapCalls(pi *pkgInfo, fset *token.FileSet) (calls []mapCall, listen [][2]string) {
	tags := mapFieldTags(pi)
	sizes := types.SizesFor("gc", "amd64")
	for _, f := range pi.files {
		ast.Inspect(f, func(n ast.Node) bool {
			call, ok := n.(*ast.CallExpr)
			if !ok {
				return true
			}
			sel, ok := call.Fun.(*ast.SelectorExpr)
			if !ok {
				return true
			}
			recv, ok := sel.X.(*ast.SelectorExpr)
			if !ok {
				return true
			}
			tag, ok := tags[recv.Sel.Name]
			if !ok {
				return true
			}
			m := sel.Sel.Name
			nargs := 0
			switch m {
			case "Update", "Put", "Lookup", "LookupAndDelete":
				nargs = 2
			case "Delete":
				nargs = 1
			default:
				return true
			}
			for i := 0; i < nargs && i < len(call.Args); i++ {
				tv, ok := pi.info.Types[call.Args[i]]
				if !ok || tv.Type == nil {
					continue
				}
				t := tv.Type
				if p, ok := t.Underlying().(*types.Pointer); ok {
					t = p.Elem()
				}
				var sz int64
				if plain(t) {
					sz = sizes.Sizeof(t)
				}
				pos := fset.Position(call.Pos())
				calls = append(calls, mapCall{tag, m, i, sz, types.TypeString(t, func(p *types.Package) string { return p.Name() }),
					fmt.Sprintf("%s:%d", filepath.Base(pos.Filename), pos.Line)})
			}
			// ListenSocketMap.Update(consts.K, uint64(<x>.Fd()), …)
			if tag == "listen_socket_map" && m == "Update" && len(call.Args) >= 2 {
				if k, ok := call.Args[0].(*ast.SelectorExpr); ok {
					who := ""
					ast.Inspect(call.Args[1], func(n ast.Node) bool {
						if s, ok := n.(*ast.SelectorExpr); ok && s.Sel.Name == "Fd" {
							if id, ok := s.X.(*ast.Ident); ok {
								who = id.Name
							}
						}
						return true
					})
					if x, ok := k.X.(*ast.Ident); ok && who != "" {
						listen = append(listen, [2]string{who, x.Name + "." + k.Sel.Name})
					}
				}
			}
			return true
		})
	}
	return
}

type constRow struct {
	Name string `json:"name"`
	Val  string `json:"val"`
	Var  bool   `json:"var"`
}

func intConsts(pi *pkgInfo, prefix string, rows map[string]constRow) {
	sc := pi.pkg.Scope()
	for _, n := range sc.Names() {
		if c, ok := sc.Lookup(n).(*types.Const); ok {
			if v := constant.ToInt(c.Val()); v.Kind() == constant.Int {
				rows[prefix+n] = constRow{prefix + n, v.ExactString(), false}
			}
		}
	}
	// package-level variables with a constant integer initialiser (consts.MaxMatchSetLen)
	for _, f := range pi.files {
		for _, d := range f.Decls {
			gd, ok := d.(*ast.GenDecl)
			if !ok || gd.Tok != token.VAR {
				continue
			}
			for _, s := range gd.Specs {
				vs := s.(*ast.ValueSpec)
				if len(vs.Values) != len(vs.Names) {
					continue
				}
				for i, id := range vs.Names {
					if tv, ok := pi.info.Types[vs.Values[i]]; ok && tv.Value != nil {
						if v := constant.ToInt(tv.Value); v.Kind() == constant.Int {
							rows[prefix+id.Name] = constRow{prefix + id.Name, v.ExactString(), true}
						}
					}
				}
			}
		}
	}
}

// ------------------------------------------------------------------------------------------ output

func leanStr(s string) string { return "n!" + strconv.Quote(s) }

func leanRec(r Rec) string {
	var b strings.Builder
	fmt.Fprintf(&b, "  ⟨%s, %d, %d, [\n", leanStr(r.Name), r.Size, r.Align)
	for i, l := range r.Leaves {
		sep := ","
		if i == len(r.Leaves)-1 {
			sep = ""
		}
		fmt.Fprintf(&b, "    ⟨%s, %d, %d, %d, .%s, %v⟩%s\n", leanStr(l.Path), l.Off, l.Esize, l.Count, l.Cls, l.Blank, sep)
	}
	b.WriteString("  ]⟩")
	return b.String()
}

func leanRecs(rs []Rec) string {
	parts := make([]string, len(rs))
	for i, r := range rs {
		parts[i] = leanRec(r)
	}
	return "[\n" + strings.Join(parts, ",\n") + "]"
}

func leanStrs(ss []string) string {
	q := make([]string, len(ss))
	for i, s := range ss {
		q[i] = leanStr(s)
	}
	return "[" + strings.Join(q, ", ") + "]"
}

type specNV struct {
	Name  string `json:"name"`
	Value uint32 `json:"value"`
}
type spec struct {
	MatchTypes []string `json:"match_types"`
	L4Proto    []specNV `json:"l4_proto"`
	IpVersion  []specNV `json:"ip_version"`
	Outbound   []specNV `json:"outbound"`
}

func leanNVs(nv []specNV) string {
	q := make([]string, len(nv))
	for i, x := range nv {
		q[i] = fmt.Sprintf("(%s, %d)", leanStr(x.Name), x.Value)
	}
	return "[" + strings.Join(q, ", ") + "]"
}

func must(err error) {
	if err != nil {
		fmt.Fprintln(os.Stderr, "c19_go:", err)
		os.Exit(3)
	}
}

func main() {
	repo, outdir, leandir := os.Args[1], os.Args[2], os.Args[3]
	must(os.MkdirAll(outdir, 0o755))
	must(os.MkdirAll(leandir, 0o755))

	stubL := &loader{repo: repo, fset: token.NewFileSet(), tags: []string{"dae_stub_ebpf"}, cache: map[string]*pkgInfo{}}
	realL := &loader{repo: repo, fset: token.NewFileSet(), tags: nil, cache: map[string]*pkgInfo{}}
	stub, err := stubL.load("control")
	must(err)
	realP, err := realL.load("control")
	must(err)
	consts, err := stubL.load("common/consts")
	must(err)

	// files that exist only in the real build
	stubFiles := map[string]bool{}
	for _, n := range stub.names {
		stubFiles[n] = true
	}
	realOnly := map[string]bool{}
	for _, n := range realP.names {
		if !stubFiles[n] {
			realOnly[n] = true
		}
	}
	types_ := dataStructs(stub, "stub", nil)
	types_ = append(types_, dataStructs(realP, "real", realOnly)...)
	if pt := findParamLiteral(realP); pt != nil {
		types_ = append(types_, namedType{"real.PARAM", pt})
	}
	if len(types_) == 0 {
		must(fmt.Errorf("no bpf* data struct types found"))
	}

	// layouts per arch, grouped into classes of identical layouts
	type class struct {
		Arches []string `json:"arches"`
		Recs   []Rec    `json:"recs"`
	}
	var classes []class
	for _, a := range arches {
		sizes := types.SizesFor("gc", a)
		if sizes == nil {
			fmt.Fprintln(os.Stderr, "c19_go: unknown arch", a)
			continue
		}
		var recs []Rec
		for _, nt := range types_ {
			recs = append(recs, recOf(nt.name, nt.t, sizes, false))
		}
		placed := false
		for i := range classes {
			if reflect.DeepEqual(classes[i].Recs, recs) {
				classes[i].Arches = append(classes[i].Arches, a)
				placed = true
				break
			}
		}
		if !placed {
			classes = append(classes, class{[]string{a}, recs})
		}
	}
	var packed []Rec
	for _, nt := range types_ {
		packed = append(packed, recOf(nt.name, nt.t, types.SizesFor("gc", "amd64"), true))
	}

	rows := map[string]constRow{}
	intConsts(consts, "consts.", rows)
	intConsts(realP, "control.", rows)
	intConsts(stub, "control.", rows)
	var names []string
	for n := range rows {
		names = append(names, n)
	}
	sort.Strings(names)

	var sp spec
	raw, err := os.ReadFile(filepath.Join(repo, "common", "consts", "ebpf_sync_spec.json"))
	must(err)
	must(json.Unmarshal(raw, &sp))

	mapTags, progTags, varTags := ebpfTags(stub, "bpfMaps"), ebpfTags(stub, "bpfPrograms"), ebpfTags(stub, "bpfVariables")
	mapCalls, listenUse := findMapCalls(stub, stubL.fset)

	// ---- json
	js := map[string]any{"classes": classes, "packed": packed, "consts": func() []constRow {
		var o []constRow
		for _, n := range names {
			o = append(o, rows[n])
		}
		return o
	}(), "mapTags": mapTags, "progTags": progTags, "varTags": varTags, "spec": sp,
		"mapCalls": mapCalls, "listenUse": listenUse}
	jb, _ := json.MarshalIndent(js, "", " ")
	must(os.WriteFile(filepath.Join(outdir, "c19_go.json"), jb, 0o644))

	// ---- Lean
	var b strings.Builder
	b.WriteString("import DaeVerif.C19.Types\n/-! GENERATED by translators/c19_go/main.go from control/*.go (go/types). Do not edit. -/\n")
	b.WriteString("namespace DaeVerif.C19.Gen\nopen DaeVerif.C19\n\n")
	b.WriteString("/-- memory layouts (gc), one entry per class of GOARCHes with identical layouts -/\n")
	b.WriteString("def goLayouts : List (List Name × List Rec) := [\n")
	for i, c := range classes {
		fmt.Fprintf(&b, " (%s, %s)", leanStrs(c.Arches), leanRecs(c.Recs))
		if i != len(classes)-1 {
			b.WriteString(",\n")
		}
	}
	b.WriteString("]\n\n/-- encoding/binary layout (what cilium/ebpf's sysenc.Marshal writes) -/\n")
	fmt.Fprintf(&b, "def goPacked : List Rec := %s\n\n", leanRecs(packed))
	fmt.Fprintf(&b, "def goMapTags : List Name := %s\n", leanStrs(mapTags))
	fmt.Fprintf(&b, "def goProgTags : List Name := %s\n", leanStrs(progTags))
	fmt.Fprintf(&b, "def goVarTags : List Name := %s\n", leanStrs(varTags))
	b.WriteString("\n/-- calls `<bpfMaps field>.Update/Lookup/Delete(key, value)` in package control: (map, method, argument index, size of the argument's static type or 0, type, where) -/\n")
	b.WriteString("def goMapCalls : List (Name × Name × Nat × Nat × String × String) := [\n")
	for i, c := range mapCalls {
		fmt.Fprintf(&b, "  (%s, %s, %d, %d, %s, %s)", leanStr(c.Map), leanStr(c.Method), c.Arg, c.Size, strconv.Quote(c.Type), strconv.Quote(c.Where))
		if i != len(mapCalls)-1 {
			b.WriteString(",\n")
		}
	}
	b.WriteString("]\n\n/-- `ListenSocketMap.Update(consts.K, uint64(<file>.Fd()), …)`: (file variable, key constant) -/\n")
	b.WriteString("def goListenUse : List (Name × Name) := [")
	for i, l := range listenUse {
		if i > 0 {
			b.WriteString(", ")
		}
		fmt.Fprintf(&b, "(%s, %s)", leanStr(l[0]), leanStr(l[1]))
	}
	b.WriteString("]\n")
	b.WriteString("\nend DaeVerif.C19.Gen\n")
	must(os.WriteFile(filepath.Join(leandir, "GoLayout.lean"), []byte(b.String()), 0o644))

	b.Reset()
	b.WriteString("import DaeVerif.C19.Types\n/-! GENERATED by translators/c19_go/main.go. Do not edit. -/\n")
	b.WriteString("namespace DaeVerif.C19.Gen\nopen DaeVerif.C19\n\n")
	b.WriteString("def goConsts : List (Name × Int) := [\n")
	for i, n := range names {
		fmt.Fprintf(&b, "  (%s, %s)", leanStr(n), rows[n].Val)
		if i != len(names)-1 {
			b.WriteString(",\n")
		}
	}
	b.WriteString("]\n\n/-- common/consts/ebpf_sync_spec.json -/\n")
	fmt.Fprintf(&b, "def specData : Spec := ⟨%s, %s, %s, %s⟩\n", leanStrs(sp.MatchTypes), leanNVs(sp.L4Proto), leanNVs(sp.IpVersion), leanNVs(sp.Outbound))
	b.WriteString("\nend DaeVerif.C19.Gen\n")
	must(os.WriteFile(filepath.Join(leandir, "GoConsts.lean"), []byte(b.String()), 0o644))
	fmt.Printf("c19 gen_go: %d struct types, %d layout classes, %d constants, %d/%d/%d tags\n",
		len(types_), len(classes), len(names), len(mapTags), len(progTags), len(varTags))
}
