// c07skel — extracts the DECISIVE ORDER FACTS of the DNS controller's request path from the Go source
// (go/ast, no type checking) and prints them as a Lean list.  The C07 model's controller skeleton
// (`handle`, `dialSend`, `handleOpt` in lean/DaeVerif/C07/Model.lean) was written against these facts;
// lean/DaeVerif/C07/Gen/Skeleton.lean is a SNAPSHOT of this program's output for the tree the model was
// written against (Props.controller_steps_as_modelled compares it with the model's list) and
// checks/c07.py compares the output for the tree under test with that snapshot on every run.
//
// Only the order of the decisive steps and the identity (by position / data flow, not by spelling) of the
// arguments that matter are facts: renamed locals, `!(d < Max)` for `d >= Max`, added logging, an extra or
// removed cache re-read do not change the output.
//
// usage: go run main.go <repo>/control [-detail]
package main

import (
	"fmt"
	"go/ast"
	"go/parser"
	"go/printer"
	"go/token"
	"os"
	"path/filepath"
	"strings"
)

var fset = token.NewFileSet()

func text(n ast.Node) string {
	var sb strings.Builder
	_ = printer.Fprint(&sb, fset, n)
	return strings.Join(strings.Fields(sb.String()), "")
}

func callName(c *ast.CallExpr) string {
	switch f := c.Fun.(type) {
	case *ast.SelectorExpr:
		if x, ok := f.X.(*ast.SelectorExpr); ok && x.Sel.Name == "sf" && f.Sel.Name == "Do" {
			return "sf.Do"
		}
		return f.Sel.Name
	case *ast.Ident:
		return f.Name
	}
	return ""
}

type event struct {
	kind string
	call *ast.CallExpr
	node ast.Node
}

// events of a function body in source order
func events(fn *ast.FuncDecl) []event {
	var out []event
	ast.Inspect(fn.Body, func(n ast.Node) bool {
		switch x := n.(type) {
		case *ast.CallExpr:
			out = append(out, event{kind: "call:" + callName(x), call: x, node: x})
		case *ast.BinaryExpr:
			t := text(x)
			if strings.Contains(t, "DnsRequestOutboundIndex_Reject") && (x.Op == token.EQL) {
				out = append(out, event{kind: "reject-test", node: x})
			}
			if strings.Contains(t, "MaxDnsLookupDepth") && (x.Op == token.GEQ || x.Op == token.LEQ || x.Op == token.LSS || x.Op == token.GTR) {
				out = append(out, event{kind: "depth-guard", node: x})
			}
		case *ast.CaseClause:
			for _, e := range x.List {
				t := text(e)
				if strings.HasSuffix(t, "DnsRequestOutboundIndex_Reject") {
					out = append(out, event{kind: "reject-test", node: x})
				}
				if strings.HasSuffix(t, "DnsResponseOutboundIndex_Reject") {
					out = append(out, event{kind: "case-response-reject", node: x})
				}
			}
		case *ast.AssignStmt:
			if len(x.Lhs) == 1 && len(x.Rhs) == 1 && strings.HasSuffix(text(x.Lhs[0]), ".Answer") && text(x.Rhs[0]) == "nil" {
				out = append(out, event{kind: "empty-answer", node: x})
			}
		}
		return true
	})
	return out
}

func first(ev []event, kind string) int {
	for i, e := range ev {
		if e.kind == kind {
			return i
		}
	}
	return -1
}

func ordered(ev []event, kinds ...string) bool {
	last := -1
	for _, k := range kinds {
		i := first(ev, k)
		if i < 0 || i <= last {
			return false
		}
		last = i
	}
	return true
}

func paramNames(fn *ast.FuncDecl) []string {
	var l []string
	for _, f := range fn.Type.Params.List {
		for _, n := range f.Names {
			l = append(l, n.Name)
		}
	}
	return l
}

// the name a call's result is assigned to (k-th left-hand side), searched in the function body
func assignedFrom(fn *ast.FuncDecl, callee string, k int) string {
	name := ""
	ast.Inspect(fn.Body, func(n ast.Node) bool {
		if a, ok := n.(*ast.AssignStmt); ok && len(a.Rhs) == 1 {
			if c, ok := a.Rhs[0].(*ast.CallExpr); ok && callName(c) == callee && len(a.Lhs) > k && name == "" {
				name = text(a.Lhs[k])
			}
		}
		return true
	})
	return name
}

func fact(ok bool, name string, observed string) string {
	if ok {
		return name
	}
	return "NOT(" + name + "): " + observed
}

// the depth guard, normalised: does it refuse exactly when depth >= MaxDnsLookupDepth ?
func guardIsGeq(e ast.Node, parent map[ast.Node]ast.Node, depthParam string) bool {
	b := e.(*ast.BinaryExpr)
	l, r := text(b.X), text(b.Y)
	neg := false
	for p := parent[e]; p != nil; p = parent[p] {
		if _, ok := p.(*ast.ParenExpr); ok {
			continue
		}
		if u, ok := p.(*ast.UnaryExpr); ok && u.Op == token.NOT {
			neg = !neg
			continue
		}
		break
	}
	geq := (b.Op == token.GEQ && l == depthParam && r == "MaxDnsLookupDepth") || (b.Op == token.LEQ && l == "MaxDnsLookupDepth" && r == depthParam)
	lss := (b.Op == token.LSS && l == depthParam && r == "MaxDnsLookupDepth") || (b.Op == token.GTR && l == "MaxDnsLookupDepth" && r == depthParam)
	return (geq && !neg) || (lss && neg)
}

func parents(fn *ast.FuncDecl) map[ast.Node]ast.Node {
	m := map[ast.Node]ast.Node{}
	var stack []ast.Node
	ast.Inspect(fn.Body, func(n ast.Node) bool {
		if n == nil {
			stack = stack[:len(stack)-1]
			return true
		}
		if len(stack) > 0 {
			m[n] = stack[len(stack)-1]
		}
		stack = append(stack, n)
		return true
	})
	return m
}

func main() {
	dir := os.Args[1]
	fns := map[string]*ast.FuncDecl{}
	files, _ := filepath.Glob(filepath.Join(dir, "*.go"))
	for _, f := range files {
		if strings.HasSuffix(f, "_test.go") {
			continue
		}
		file, err := parser.ParseFile(fset, f, nil, 0)
		if err != nil {
			fmt.Fprintln(os.Stderr, err)
			os.Exit(1)
		}
		for _, d := range file.Decls {
			if fn, ok := d.(*ast.FuncDecl); ok && fn.Recv != nil && fn.Body != nil && strings.Contains(text(fn.Recv.List[0].Type), "DnsController") {
				fns[fn.Name.Name] = fn
			}
		}
	}
	for _, w := range []string{"HandleWithResponseWriter_", "handleWithResponseWriter_", "dialSend", "backgroundRefresh"} {
		if fns[w] == nil {
			fmt.Fprintf(os.Stderr, "c07skel: method %s of DnsController not found in %s\n", w, dir)
			os.Exit(3)
		}
	}
	var facts []string

	// ---- the two handlers: route, then the reject test with eviction and empty answer, then the cache
	for _, w := range []string{"HandleWithResponseWriter_", "handleWithResponseWriter_"} {
		fn := fns[w]
		ev := events(fn)
		facts = append(facts, fact(ordered(ev, "call:RequestSelect", "reject-test", "call:LookupDnsRespCache_"),
			w+": request routing, then the reject test, then the first cache lookup", "order differs"))
		facts = append(facts, fact(ordered(ev, "reject-test", "call:sendRejectWithResponseWriter_", "call:LookupDnsRespCache_"),
			w+": a rejected route is answered empty before any cache lookup", "order differs"))
	}
	{
		fn := fns["HandleWithResponseWriter_"]
		ev := events(fn)
		key := assignedFrom(fn, "responseCacheKey", 0)
		i := first(ev, "call:sf.Do")
		ok := i >= 0 && len(ev[i].call.Args) > 0 && key != "" && text(ev[i].call.Args[0]) == key
		obs := "no singleflight"
		if i >= 0 && len(ev[i].call.Args) > 0 {
			obs = "key=" + text(ev[i].call.Args[0])
		}
		facts = append(facts, fact(ok, "HandleWithResponseWriter_: resolution is coalesced under the response cache key (scope included)", obs))
		facts = append(facts, fact(ordered(ev, "call:LookupDnsRespCache_", "call:sf.Do"), "HandleWithResponseWriter_: cache lookup before the coalesced resolution", "order differs"))
	}
	{
		fn := fns["handleWithResponseWriter_"]
		ev := events(fn)
		ps := paramNames(fn)
		i := first(ev, "call:dialSend")
		ok := i >= 0 && len(ev[i].call.Args) >= 10 && text(ev[i].call.Args[1]) == "0" && len(ps) >= 9 &&
			text(ev[i].call.Args[5]) == ps[6] && text(ev[i].call.Args[8]) == ps[7]
		facts = append(facts, fact(ok && ordered(ev, "call:LookupDnsRespCache_", "call:dialSend"),
			"handleWithResponseWriter_: after a cache miss, dialSend at depth 0 with the routed upstream under the request's response cache key", "arguments or order differ"))
	}
	// ---- dialSend
	{
		fn := fns["dialSend"]
		ev := events(fn)
		ps := paramNames(fn)
		par := parents(fn)
		depthParam, keyParam := "", ""
		if len(ps) >= 10 {
			depthParam, keyParam = ps[1], ps[8]
		}
		g := first(ev, "depth-guard")
		facts = append(facts, fact(g >= 0 && guardIsGeq(ev[g].node, par, depthParam), "dialSend: refuses when the depth has reached MaxDnsLookupDepth (>=)", func() string {
			if g < 0 {
				return "no guard"
			}
			return text(ev[g].node)
		}()))
		facts = append(facts, fact(ordered(ev, "depth-guard", "call:forwardWithFallback", "call:dnsResponseAnswersRequest", "call:ResponseSelect"),
			"dialSend: depth guard, forward, question check, response routing — in this order", "order differs"))
		facts = append(facts, fact(ordered(ev, "call:ResponseSelect", "case-response-reject", "empty-answer"),
			"dialSend: a response routed to reject loses its answer section", "missing or reordered"))
		next := assignedFrom(fn, "ResponseSelect", 1)
		okRe := false
		obs := "no re-ask"
		for _, e := range ev {
			if e.kind == "call:dialSend" && len(e.call.Args) >= 10 {
				b, isBin := e.call.Args[1].(*ast.BinaryExpr)
				okRe = isBin && b.Op == token.ADD && ((text(b.X) == depthParam && text(b.Y) == "1") || (text(b.Y) == depthParam && text(b.X) == "1")) &&
					next != "" && text(e.call.Args[5]) == next && text(e.call.Args[8]) == keyParam
				obs = "reask(" + text(e.call.Args[1]) + "," + text(e.call.Args[5]) + "," + text(e.call.Args[8]) + ")"
			}
		}
		facts = append(facts, fact(okRe, "dialSend: a re-ask goes one level deeper, to the upstream the response routing selected, under the same cache key", obs))
		okSt, n := true, 0
		for _, e := range ev {
			if e.kind == "call:NormalizeAndCacheDnsResp_" {
				n++
				if len(e.call.Args) != 2 || text(e.call.Args[1]) != keyParam {
					okSt = false
				}
			}
		}
		facts = append(facts, fact(okSt && n > 0, "dialSend: every store is under the cache key of the original request", fmt.Sprintf("%d stores", n)))
		facts = append(facts, fact(ordered(ev, "call:ResponseSelect", "call:NormalizeAndCacheDnsResp_"), "dialSend: nothing is stored before the response is routed", "order differs"))
	}
	// ---- backgroundRefresh
	{
		fn := fns["backgroundRefresh"]
		ev := events(fn)
		ps := paramNames(fn)
		i := first(ev, "call:dialSend")
		ok := i >= 0 && len(ev[i].call.Args) >= 10 && text(ev[i].call.Args[1]) == "0" && len(ps) >= 5 &&
			text(ev[i].call.Args[5]) == ps[4] && text(ev[i].call.Args[8]) == ps[0]
		facts = append(facts, fact(ok && ordered(ev, "reject-test", "call:dialSend"),
			"backgroundRefresh: nothing for a rejected route; else dialSend at depth 0 with the upstream routed for the stale entry, under that entry's key", "arguments or order differ"))
	}

	fmt.Println("/-! SNAPSHOT of the output of /verif/translators/c07skel for control/dns_control*.go — regenerate with")
	fmt.Println("`go run main.go /repo/control`; checks/c07.py compares the tree under test with this file on every run. -/")
	fmt.Println("namespace DaeVerif.C07.Gen")
	fmt.Print("\ndef controllerFacts : List String := [")
	for i, s := range facts {
		if i > 0 {
			fmt.Print(",")
		}
		fmt.Printf("\n  %q", s)
	}
	fmt.Println("]")
	fmt.Println("\nend DaeVerif.C07.Gen")
}
