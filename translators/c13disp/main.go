// c13disp: extracts, from /repo's CURRENT control/control_plane.go, the UDP ingress glue of
// (*ControlPlane).Serve that sits between the batch reader and the per-flow task pool, and writes it
// verbatim into two functions for package control:
//
//	func c13GenProcessPacket(c *ControlPlane, udpConn *net.UDPConn, c13TaskBody func(UdpFlowDecision, netip.AddrPort, netip.AddrPort, pool.PB),
//	        pktBuf pool.PB, src netip.AddrPort, oob []byte)
//	    = the body of Serve's `processPacket := func(pktBuf pool.PB, src netip.AddrPort, oob []byte) {...}`
//	      closure: every statement before and after `task := func() {...}` is copied as it is (original
//	      destination from the control message, address convergence, ClassifyUdpFlow, EnsureSnifferSession,
//	      the three-way dispatch switch: EmitTask / go task() / unordered runner); only the BODY of the
//	      packet task (routing lookup + handlePkt, tied by stream c13_hp) is replaced by a call of
//	      c13TaskBody(flowDecision, convergeSrc, realDst, pktBuf).
//
//	func c13GenBatchLoop(c *ControlPlane, batchReader *udpIngressBatchReader, processPacket func(pool.PB, netip.AddrPort, []byte))
//	    = the `for { ... ReadBatch ... Take(i) ... processPacket(...) }` loop of the batch branch
//	      (`if udpIngressSupportsBatch(udpConn) {...}`), verbatim.
//
// The C13 harness (stream c13_ing) then runs production's own ingress statements instead of a copy.
// FAILS CLOSED: when one of the anchors is not found (Serve, the processPacket closure with exactly
// that parameter list, the `task := func() {...}` statement, the udpIngressSupportsBatch branch with
// exactly one `for` loop) the translator exits 1 and the check reports NO-EVIDENCE (exit 2).
//
// usage: go run main.go <repo>/control <outfile>
package main

import (
	"bytes"
	"fmt"
	"go/ast"
	"go/parser"
	"go/token"
	"os"
	"path"
	"sort"
	"strconv"
	"strings"
)

func fail(msg string) {
	fmt.Fprintln(os.Stderr, "c13disp: "+msg)
	os.Exit(1)
}

func main() {
	srcPath, out := os.Args[1]+"/control_plane.go", os.Args[2]
	src, err := os.ReadFile(srcPath)
	if err != nil {
		fail(err.Error())
	}
	fset := token.NewFileSet()
	f, err := parser.ParseFile(fset, srcPath, src, parser.ParseComments)
	if err != nil {
		fail(err.Error())
	}
	text := func(from, to token.Pos) string { return string(src[fset.Position(from).Offset:fset.Position(to).Offset]) }

	var serve *ast.FuncDecl
	for _, d := range f.Decls {
		if fd, ok := d.(*ast.FuncDecl); ok && fd.Name.Name == "Serve" && fd.Recv != nil && fd.Body != nil {
			if len(fd.Recv.List) == 1 && len(fd.Recv.List[0].Names) == 1 {
				if st, ok := fd.Recv.List[0].Type.(*ast.StarExpr); ok {
					if id, ok := st.X.(*ast.Ident); ok && id.Name == "ControlPlane" {
						if serve != nil {
							fail("two (*ControlPlane).Serve methods")
						}
						serve = fd
					}
				}
			}
		}
	}
	if serve == nil {
		fail("anchor moved: method (*ControlPlane).Serve not found")
	}
	recv := serve.Recv.List[0].Names[0].Name

	// --- processPacket := func(pktBuf pool.PB, src netip.AddrPort, oob []byte) { ... }
	var pp *ast.FuncLit
	ast.Inspect(serve.Body, func(n ast.Node) bool {
		as, ok := n.(*ast.AssignStmt)
		if !ok || as.Tok != token.DEFINE || len(as.Lhs) != 1 || len(as.Rhs) != 1 {
			return true
		}
		if id, ok := as.Lhs[0].(*ast.Ident); ok && id.Name == "processPacket" {
			if fl, ok := as.Rhs[0].(*ast.FuncLit); ok {
				if pp != nil {
					fail("anchor moved: two `processPacket := func` definitions in Serve")
				}
				pp = fl
			}
		}
		return true
	})
	if pp == nil {
		fail("anchor moved: `processPacket := func(...)` not found in Serve")
	}
	params := text(pp.Type.Params.Opening+1, pp.Type.Params.Closing)
	if strings.Join(strings.Fields(params), " ") != "pktBuf pool.PB, src netip.AddrPort, oob []byte" || pp.Type.Results != nil {
		fail("anchor moved: processPacket's signature is `" + params + "`, expected (pktBuf pool.PB, src netip.AddrPort, oob []byte)")
	}
	taskIdx := -1
	for i, s := range pp.Body.List {
		if as, ok := s.(*ast.AssignStmt); ok && as.Tok == token.DEFINE && len(as.Lhs) == 1 && len(as.Rhs) == 1 {
			if id, ok := as.Lhs[0].(*ast.Ident); ok && id.Name == "task" {
				if fl, ok := as.Rhs[0].(*ast.FuncLit); ok && fl.Type.Params.NumFields() == 0 && fl.Type.Results == nil {
					if taskIdx >= 0 {
						fail("anchor moved: two `task := func()` statements in processPacket")
					}
					taskIdx = i
				}
			}
		}
	}
	if taskIdx < 0 {
		fail("anchor moved: `task := func() {...}` not found at the top level of processPacket")
	}
	if taskIdx == len(pp.Body.List)-1 {
		fail("anchor moved: nothing follows `task := func() {...}` (the dispatch) in processPacket")
	}
	taskStmt := pp.Body.List[taskIdx]
	pre := text(pp.Body.Lbrace+1, taskStmt.Pos())
	post := text(taskStmt.End(), pp.Body.Rbrace)
	// `task` must be used by the statements that follow (it is what gets dispatched)
	usesTask := false
	for _, s := range pp.Body.List[taskIdx+1:] {
		ast.Inspect(s, func(n ast.Node) bool {
			if id, ok := n.(*ast.Ident); ok && id.Name == "task" {
				usesTask = true
			}
			return true
		})
	}
	if !usesTask {
		fail("anchor moved: the statements after `task := func() {...}` do not mention task")
	}
	// locals defined before the task (they may be used only inside the original task body)
	var locals []string
	seen := map[string]bool{}
	for _, s := range pp.Body.List[:taskIdx] {
		if as, ok := s.(*ast.AssignStmt); ok && as.Tok == token.DEFINE {
			for _, l := range as.Lhs {
				if id, ok := l.(*ast.Ident); ok && id.Name != "_" && !seen[id.Name] {
					seen[id.Name] = true
					locals = append(locals, id.Name)
				}
			}
		}
	}
	for _, need := range []string{"flowDecision", "convergeSrc", "realDst"} {
		if !seen[need] {
			fail("anchor moved: processPacket no longer defines `" + need + "` before the task")
		}
	}

	// --- if udpIngressSupportsBatch(udpConn) { ...; for { ... } ; return }
	var batchIf *ast.IfStmt
	ast.Inspect(serve.Body, func(n ast.Node) bool {
		is, ok := n.(*ast.IfStmt)
		if !ok {
			return true
		}
		if c, ok := is.Cond.(*ast.CallExpr); ok {
			if id, ok := c.Fun.(*ast.Ident); ok && id.Name == "udpIngressSupportsBatch" {
				if batchIf != nil {
					fail("anchor moved: two udpIngressSupportsBatch branches in Serve")
				}
				batchIf = is
			}
		}
		return true
	})
	if batchIf == nil {
		fail("anchor moved: `if udpIngressSupportsBatch(...)` not found in Serve")
	}
	var loop *ast.ForStmt
	definesReader := false
	for _, s := range batchIf.Body.List {
		if fs, ok := s.(*ast.ForStmt); ok {
			if loop != nil {
				fail("anchor moved: more than one `for` loop in the batch branch")
			}
			loop = fs
		}
		if as, ok := s.(*ast.AssignStmt); ok && as.Tok == token.DEFINE && len(as.Lhs) == 1 {
			if id, ok := as.Lhs[0].(*ast.Ident); ok && id.Name == "batchReader" {
				if c, ok := as.Rhs[0].(*ast.CallExpr); ok {
					if fn, ok := c.Fun.(*ast.Ident); ok && fn.Name == "newUDPIngressBatchReader" {
						definesReader = true
					}
				}
			}
		}
	}
	if loop == nil || !definesReader {
		fail("anchor moved: the batch branch has no `batchReader := newUDPIngressBatchReader(...)` followed by a `for` loop")
	}
	loopText := text(loop.Pos(), loop.End())
	for _, must := range []string{"batchReader.ReadBatch()", "batchReader.Take(", "processPacket("} {
		if !strings.Contains(loopText, must) {
			fail("anchor moved: the batch loop does not contain `" + must + "`")
		}
	}

	// --- imports used by the copied text
	used := map[string]bool{"net": true, "netip": true, "pool": true}
	mark := func(n ast.Node) {
		ast.Inspect(n, func(x ast.Node) bool {
			if se, ok := x.(*ast.SelectorExpr); ok {
				if id, ok := se.X.(*ast.Ident); ok && id.Obj == nil {
					used[id.Name] = true
				}
			}
			return true
		})
	}
	for i, s := range pp.Body.List {
		if i != taskIdx {
			mark(s)
		}
	}
	mark(loop)
	var imps []string
	have := map[string]bool{}
	for _, is := range f.Imports {
		p, _ := strconv.Unquote(is.Path.Value)
		name := path.Base(p)
		spec := is.Path.Value
		if is.Name != nil {
			name = is.Name.Name
			spec = name + " " + spec
		}
		if used[name] && !have[name] {
			have[name] = true
			imps = append(imps, "\t"+spec)
		}
	}
	for _, need := range []string{"net", "netip", "pool"} {
		if !have[need] {
			fail("anchor moved: control_plane.go no longer imports package " + need)
		}
	}
	sort.Strings(imps)

	var b bytes.Buffer
	b.WriteString("// Code generated by /verif/translators/c13disp from control/control_plane.go (*ControlPlane).Serve. DO NOT EDIT.\n\n")
	b.WriteString("package control\n\nimport (\n" + strings.Join(imps, "\n") + "\n)\n\n")
	fmt.Fprintf(&b, "const c13GenIngressMode = %q\n\n", fmt.Sprintf("regenerated from control_plane.go: processPacket (%d statements before the task, %d after), batch loop at line %d",
		taskIdx, len(pp.Body.List)-taskIdx-1, fset.Position(loop.Pos()).Line))
	fmt.Fprintf(&b, "func c13GenProcessPacket(%s *ControlPlane, udpConn *net.UDPConn, c13TaskBody func(flowDecision UdpFlowDecision, convergeSrc, realDst netip.AddrPort, pktBuf pool.PB), %s) {\n", recv, params)
	b.WriteString("\t_ = udpConn\n")
	b.WriteString(pre)
	b.WriteString("task := func() { c13TaskBody(flowDecision, convergeSrc, realDst, pktBuf) }\n")
	for _, l := range locals {
		fmt.Fprintf(&b, "\t_ = %s\n", l)
	}
	b.WriteString(post)
	b.WriteString("}\n\n")
	fmt.Fprintf(&b, "func c13GenBatchLoop(%s *ControlPlane, batchReader *udpIngressBatchReader, processPacket func(%s)) {\n\t", recv, params)
	b.WriteString(loopText)
	b.WriteString("\n}\n")
	if err := os.WriteFile(out, b.Bytes(), 0o644); err != nil {
		fail(err.Error())
	}
	fmt.Printf("c13disp: processPacket %d+%d statements, batch loop %d bytes\n", taskIdx, len(pp.Body.List)-taskIdx-1, len(loopText))
}
