#!/usr/bin/env python3
"""
Regenerates lean/DaeVerif/C19/Gen/*.lean (git-ignored) from the CURRENT sources of the repository:
the C tables from control/kern/tproxy.c (translators/c19_c/gen_c.py, clang -target bpf) and the Go
tables from control/*.go, common/consts/*.go (translators/c19_go/main.go, go/types).  Called by
checks/c19.py on every run; must also be run once before `lake build DaeVerif.C19.Props` on a fresh
checkout (setup).

usage: c19_regen.py [<repo> [<workdir>]]      (default repo: $VERIF_REPO or /repo)
exit 0 = tables written; 3 = a translator failed (message on stdout)
"""
import glob, os, shutil, subprocess, sys, time

VERIF = os.path.dirname(os.path.dirname(os.path.abspath(__file__)))
GEN = os.path.join(VERIF, "lean", "DaeVerif", "C19", "Gen")


def main():
    repo = sys.argv[1] if len(sys.argv) > 1 else os.environ.get("VERIF_REPO", "/repo")
    work = sys.argv[2] if len(sys.argv) > 2 else os.path.join(VERIF, ".cache", "gen", "c19")
    os.makedirs(work, exist_ok=True)
    stage = os.path.join(work, "lean")
    shutil.rmtree(stage, ignore_errors=True)
    os.makedirs(stage)
    os.makedirs(GEN, exist_ok=True)
    gi = os.path.join(GEN, ".gitignore")
    if not os.path.exists(gi):
        open(gi, "w").write("*.lean\n")
    t0 = time.time()
    env = dict(os.environ, GOFLAGS="-mod=mod", GOPROXY="off")
    env.pop("GOSUMDB", None)
    if env.get("GOTOOLCHAIN") == "local":
        env.pop("GOTOOLCHAIN")
    # the two translators are independent: run them side by side
    pc = subprocess.Popen([sys.executable, os.path.join(VERIF, "translators", "c19_c", "gen_c.py"), repo, VERIF, work, stage],
                          stdout=subprocess.PIPE, stderr=subprocess.STDOUT)
    pg = subprocess.Popen(["go", "run", "main.go", "sites.go", repo, work, stage], cwd=os.path.join(VERIF, "translators", "c19_go"), env=env,
                          stdout=subprocess.PIPE, stderr=subprocess.STDOUT)
    oc, og = pc.communicate()[0], pg.communicate()[0]
    print(oc.decode().strip())
    print(og.decode().strip())
    if pc.returncode != 0:
        print("TRANSLATOR-FAILED c19_c (does control/kern/tproxy.c still compile with the shim headers?)")
        return 3
    if pg.returncode != 0:
        print("TRANSLATOR-FAILED c19_go")
        return 3
    # the tables are never patched in place: only after BOTH translators succeeded are the old tables
    # deleted and the complete new ones moved into the lake workspace (a failed translator leaves the
    # previous tables in place instead of a workspace that does not build)
    for f in glob.glob(os.path.join(GEN, "*.lean")):
        os.unlink(f)
    for f in sorted(glob.glob(os.path.join(stage, "*.lean"))):
        shutil.move(f, os.path.join(GEN, os.path.basename(f)))
    print("c19 tables regenerated from %s in %.1fs -> %s" % (repo, time.time() - t0, GEN))
    return 0


if __name__ == "__main__":
    sys.exit(main())
