// c10wrap regenerates, from /repo's CURRENT sources, the two pieces of glue the C10 harness needs and
// fails closed (exit 1 => the check exits 2, NO-EVIDENCE) when an anchor has moved:
//
//  1. <out>/bpf_utils_c10.go  - control/bpf_utils.go with BpfMapBatchUpdate / BpfMapBatchDelete /
//     BpfMapBatchDeleteAll renamed to verifC10Real<Name> (bodies untouched) plus three wrappers of the
//     original names that consult an observer variable first. The observer receives a closure that runs the
//     REAL function, so the harness can (a) observe what syncOwner sends, (b) inject a failing syscall at a
//     chosen point, (c) let the production batch code run against a real kernel hash map.
//     Overlaid as a REPLACEMENT of control/bpf_utils.go (nothing is written to /repo).
//
//  2. <out>/c10_commit_gen.go - the DNS / domain_routing_map steps of ControlPlane.CommitPreparedDatapath
//     and of the non-delayed tail of newControlPlane, in source order, as callable functions. The statements
//     that need a network namespace (commitInterfaceBindings) or start unrelated goroutines
//     (startConnStateJanitor, markReady) are dropped by name; every remaining call must be on an allow-list,
//     otherwise the translator refuses (a new step in the commit path must be looked at by a human).
//
// usage: go run main.go <repo>/control <outdir>
package main

import (
	"bytes"
	"fmt"
	"go/ast"
	"go/parser"
	"go/printer"
	"go/token"
	"os"
	"path/filepath"
	"strings"
)

func die(f string, a ...interface{}) {
	fmt.Fprintf(os.Stderr, "c10wrap: "+f+"\n", a...)
	os.Exit(1)
}

func src(fset *token.FileSet, n interface{}) string {
	var b bytes.Buffer
	if err := printer.Fprint(&b, fset, n); err != nil {
		die("print: %v", err)
	}
	return b.String()
}

// ---------------------------------------------------------------------------------------------
// 1. batch function wrappers

var wantSig = map[string]string{
	"BpfMapBatchUpdate":    "func(m *ebpf.Map, keys interface{}, values interface{}, opts *ebpf.BatchOptions) (n int, err error)",
	"BpfMapBatchDelete":    "func(m *ebpf.Map, keys interface{}) (n int, err error)",
	"BpfMapBatchDeleteAll": "func[K any, V any](m *ebpf.Map) error",
}

const wrappers = `

// ---- added by /verif/translators/c10wrap (generated copy, never written to /repo) ----

// observers: nil = production behaviour. real() runs the unmodified production function.
var VerifC10BatchUpdateHook func(m *ebpf.Map, keys interface{}, values interface{}, real func() (int, error)) (int, error)
var VerifC10BatchDeleteHook func(m *ebpf.Map, keys interface{}, real func() (int, error)) (int, error)
var VerifC10BatchDeleteAllHook func(m *ebpf.Map, real func() error) error

func BpfMapBatchUpdate(m *ebpf.Map, keys interface{}, values interface{}, opts *ebpf.BatchOptions) (n int, err error) {
	real := func() (int, error) { return verifC10RealBpfMapBatchUpdate(m, keys, values, opts) }
	if h := VerifC10BatchUpdateHook; h != nil {
		return h(m, keys, values, real)
	}
	return real()
}

func BpfMapBatchDelete(m *ebpf.Map, keys interface{}) (n int, err error) {
	real := func() (int, error) { return verifC10RealBpfMapBatchDelete(m, keys) }
	if h := VerifC10BatchDeleteHook; h != nil {
		return h(m, keys, real)
	}
	return real()
}

func BpfMapBatchDeleteAll[K any, V any](m *ebpf.Map) error {
	real := func() error { return verifC10RealBpfMapBatchDeleteAll[K, V](m) }
	if h := VerifC10BatchDeleteAllHook; h != nil {
		return h(m, real)
	}
	return real()
}
`

func genWrappers(dir, outdir string) string {
	path := filepath.Join(dir, "bpf_utils.go")
	fset := token.NewFileSet()
	f, err := parser.ParseFile(fset, path, nil, parser.ParseComments)
	if err != nil {
		die("%v", err)
	}
	found := map[string]bool{}
	for _, d := range f.Decls {
		fd, ok := d.(*ast.FuncDecl)
		if !ok || fd.Recv != nil {
			continue
		}
		want, ok := wantSig[fd.Name.Name]
		if !ok {
			continue
		}
		got := src(fset, fd.Type)
		if got != want {
			die("signature of %s changed: got `%s`, expected `%s`", fd.Name.Name, got, want)
		}
		if fd.Body == nil {
			die("%s has no body", fd.Name.Name)
		}
		found[fd.Name.Name] = true
		fd.Name.Name = "verifC10Real" + fd.Name.Name
	}
	for n := range wantSig {
		if !found[n] {
			die("%s not found in %s", n, path)
		}
	}
	// callers inside the file keep calling the ORIGINAL names (= the wrappers), e.g. BpfMapBatchDeleteAll's
	// chunked deletes go through BpfMapBatchDelete and are observed too.
	var b bytes.Buffer
	if err := printer.Fprint(&b, fset, f); err != nil {
		die("print: %v", err)
	}
	out := b.String()
	if !strings.Contains(out, "!dae_stub_ebpf") {
		die("bpf_utils.go lost its build constraint")
	}
	out += wrappers
	outp := filepath.Join(outdir, "bpf_utils_c10.go")
	if err := os.WriteFile(outp, []byte(out), 0o644); err != nil {
		die("%v", err)
	}
	return outp
}

// ---------------------------------------------------------------------------------------------
// 2. commit steps

// callee (printed) -> allowed
var allowedCalls = map[string]bool{
	"c.routingKernspaceSnapshot.BuildKernspace": true,
	"c.core.bpf.Load":              true,
	"core.bpf.Load":                true,
	"clearReloadDomainRoutingMap":  true,
	"c.replayDnsReloadCache":       true,
	"plane.replayDnsReloadCache":   true,
	"fmt.Errorf":                   true,
	"c.log.Infoln":                 true,
}

// statements dropped by the call they consist of / guard
var droppedCalls = map[string]bool{
	"c.commitInterfaceBindings":     true,
	"plane.commitInterfaceBindings": true,
	"c.startConnStateJanitor":       true,
	"plane.markReady":               true,
}

func calleeOf(fset *token.FileSet, e ast.Expr) string {
	if c, ok := e.(*ast.CallExpr); ok {
		return src(fset, c.Fun)
	}
	return ""
}

// the single call a statement is "about", if it has the shape `f()` or `if err := f(); err != nil {...}` or
// `if err = f(); err != nil {...}`
func headCall(fset *token.FileSet, s ast.Stmt) string {
	switch x := s.(type) {
	case *ast.ExprStmt:
		return calleeOf(fset, x.X)
	case *ast.IfStmt:
		if as, ok := x.Init.(*ast.AssignStmt); ok && len(as.Rhs) == 1 {
			return calleeOf(fset, as.Rhs[0])
		}
	}
	return ""
}

func checkCalls(fset *token.FileSet, what string, stmts []ast.Stmt) {
	for _, s := range stmts {
		ast.Inspect(s, func(n ast.Node) bool {
			if c, ok := n.(*ast.CallExpr); ok {
				name := src(fset, c.Fun)
				if !allowedCalls[name] {
					die("%s: call of `%s` is not on the allow-list (the commit path gained a step: look at it, then extend translators/c10wrap)", what, name)
				}
			}
			return true
		})
	}
}

func filterStmts(fset *token.FileSet, what string, in []ast.Stmt, mustDrop []string) []ast.Stmt {
	var out []ast.Stmt
	dropped := map[string]bool{}
	for _, s := range in {
		if h := headCall(fset, s); droppedCalls[h] {
			dropped[h] = true
			continue
		}
		out = append(out, s)
	}
	for _, d := range mustDrop {
		if !dropped[d] {
			die("%s: expected statement calling %s not found", what, d)
		}
	}
	checkCalls(fset, what, out)
	return out
}

func stmtsSrc(fset *token.FileSet, stmts []ast.Stmt) string {
	var b strings.Builder
	for _, s := range stmts {
		b.WriteString("\t" + strings.ReplaceAll(src(fset, s), "\n", "\n\t") + "\n")
	}
	return b.String()
}

// the pieces the harness relies on must exist; their ORDER is deliberately not checked here: the harness runs the
// statements in the order the source has them, so a reordering in the source is executed (and judged) as it is
func mustContainInOrder(what, body string, parts ...string) {
	for _, p := range parts {
		if !strings.Contains(body, p) {
			die("%s: `%s` not found in the extracted steps", what, p)
		}
	}
}

func genCommit(dir, outdir string) (string, string) {
	path := filepath.Join(dir, "control_plane.go")
	fset := token.NewFileSet()
	f, err := parser.ParseFile(fset, path, nil, 0)
	if err != nil {
		die("%v", err)
	}
	var commit, newcp *ast.FuncDecl
	for _, d := range f.Decls {
		fd, ok := d.(*ast.FuncDecl)
		if !ok {
			continue
		}
		if fd.Name.Name == "CommitPreparedDatapath" && fd.Recv != nil {
			commit = fd
		}
		if fd.Name.Name == "newControlPlaneWithContextOptions" && fd.Recv == nil {
			newcp = fd
		}
	}
	if commit == nil {
		die("ControlPlane.CommitPreparedDatapath not found")
	}
	if r := src(fset, commit.Recv.List[0].Type); r != "*ControlPlane" || len(commit.Recv.List[0].Names) != 1 || commit.Recv.List[0].Names[0].Name != "c" {
		die("CommitPreparedDatapath receiver changed")
	}
	if got := src(fset, commit.Type); got != "func() error" {
		die("CommitPreparedDatapath signature changed: %s", got)
	}
	cs := filterStmts(fset, "CommitPreparedDatapath", commit.Body.List, []string{"c.commitInterfaceBindings", "c.startConnStateJanitor"})
	commitSrc := stmtsSrc(fset, cs)
	mustContainInOrder("CommitPreparedDatapath", commitSrc, "c.preparedDatapathCommit", "c.sharedBpfReload", "clearReloadDomainRoutingMap(", "c.replayDnsReloadCache()", "c.preparedDatapathCommit = false")

	// the non-delayed tail of newControlPlane: `if buildOpts.delayDatapathCommit { … } else { <this> }`
	var tail []ast.Stmt
	if newcp != nil {
		n := 0
		ast.Inspect(newcp.Body, func(nd ast.Node) bool {
			is, ok := nd.(*ast.IfStmt)
			if !ok || src(fset, is.Cond) != "buildOpts.delayDatapathCommit" || is.Else == nil {
				return true
			}
			blk, ok := is.Else.(*ast.BlockStmt)
			if !ok {
				return true
			}
			n++
			tail = blk.List
			return true
		})
		if n != 1 {
			die("newControlPlane: expected exactly one `if buildOpts.delayDatapathCommit {…} else {…}`, found %d", n)
		}
	} else {
		die("newControlPlaneWithContextOptions not found")
	}
	ts := filterStmts(fset, "newControlPlane tail", tail, []string{"plane.commitInterfaceBindings", "plane.markReady"})
	// `return nil, X` -> `return X`
	for _, s := range ts {
		ast.Inspect(s, func(nd ast.Node) bool {
			if r, ok := nd.(*ast.ReturnStmt); ok {
				if len(r.Results) != 2 || src(fset, r.Results[0]) != "nil" {
					die("newControlPlane tail: unexpected return statement `%s`", src(fset, r))
				}
				r.Results = r.Results[1:]
			}
			return true
		})
	}
	tailSrc := stmtsSrc(fset, ts)
	mustContainInOrder("newControlPlane tail", tailSrc, "plane.sharedBpfReload", "clearReloadDomainRoutingMap(", "plane.replayDnsReloadCache()")

	var b strings.Builder
	b.WriteString("// GENERATED by /verif/translators/c10wrap from control/control_plane.go. Do not edit.\npackage control\n\nimport \"fmt\"\n\nvar _ = fmt.Errorf\n\n")
	b.WriteString("// the statements of ControlPlane.CommitPreparedDatapath, in source order, without commitInterfaceBindings\n// (needs the dae network namespace) and startConnStateJanitor\n")
	b.WriteString("func (c *ControlPlane) verifC10CommitPreparedDatapathDNS() error {\n" + commitSrc + "}\n\n")
	b.WriteString("// the non-delayed tail of newControlPlane (`else` branch of `if buildOpts.delayDatapathCommit`), in source\n// order, without commitInterfaceBindings and markReady\n")
	b.WriteString("func verifC10NewControlPlaneTailDNS(plane *ControlPlane, core *controlPlaneCore) (err error) {\n" + tailSrc + "\treturn nil\n}\n")
	outp := filepath.Join(outdir, "c10_commit_gen.go")
	if err := os.WriteFile(outp, []byte(b.String()), 0o644); err != nil {
		die("%v", err)
	}
	return outp, fmt.Sprintf("commit steps: %d statements, tail: %d statements", len(cs), len(ts))
}

func main() {
	if len(os.Args) != 3 {
		die("usage: c10wrap <repo>/control <outdir>")
	}
	dir, outdir := os.Args[1], os.Args[2]
	if err := os.MkdirAll(outdir, 0o755); err != nil {
		die("%v", err)
	}
	w := genWrappers(dir, outdir)
	c, info := genCommit(dir, outdir)
	fmt.Printf("c10wrap: %s (3 batch functions wrapped), %s (%s)\n", w, c, info)
}
