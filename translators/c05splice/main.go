// c05splice: regenerates, from /repo's CURRENT control/ sources, a copy of the accounting splice loop
//
//	func relaySpliceCopyExact(ctx context.Context, dst, src *net.TCPConn, record func(int64)) (int64, error)
//
// as   func c05GenSpliceCopyExact(<same parameters>) (int64, error)   for package control, in which the ONLY
// change is that the two syscall helpers are called through harness hooks of the same arity:
//
//	spliceSocketToPipe(a, b, c)  ->  c05SpliceInHook(a, b, c)
//	splicePipeToSocket(a, b, c)  ->  c05SpliceOutHook(a, b, c)
//
// Everything else — the loop, the inPipe / pipe.data accounting, getRelaySplicePipe and the deferred
// putRelaySplicePipe (whatever its arguments), normalizeTrafficRecord, the context check, every return — is
// production's own text and calls production's own functions.  The C05 harness then drives the loop with
// arbitrary schedules of splice results (partial counts on both legs, EOF, errors, cancellation at any step),
// which real sockets cannot be made to produce on demand.
//
// Fails closed (exit 1, nothing written) when the anchor moved: the function is missing or declared more than
// once for linux, its parameter list changed, it no longer calls each helper at least once, or it declares
// something named like a hook.
//
// usage: go run main.go <repo>/control <outfile>
package main

import (
	"bytes"
	"fmt"
	"go/ast"
	"go/parser"
	"go/printer"
	"go/token"
	"os"
	"path/filepath"
	"sort"
	"strings"
)

func fail(msg string) {
	fmt.Fprintln(os.Stderr, "c05splice: "+msg)
	os.Exit(1)
}

func exprString(fset *token.FileSet, n ast.Node) string {
	var b bytes.Buffer
	_ = printer.Fprint(&b, fset, n)
	return b.String()
}

func main() {
	if len(os.Args) != 3 {
		fail("usage: main.go <repo>/control <outfile>")
	}
	dir, out := os.Args[1], os.Args[2]
	files, _ := filepath.Glob(filepath.Join(dir, "*.go"))
	sort.Strings(files)
	fset := token.NewFileSet()
	var fn *ast.FuncDecl
	var file *ast.File
	for _, p := range files {
		base := filepath.Base(p)
		if strings.HasSuffix(base, "_test.go") {
			continue
		}
		f, err := parser.ParseFile(fset, p, nil, parser.ParseComments)
		if err != nil {
			fail(err.Error())
		}
		// skip files that are excluded on linux / in the stub build
		skip := false
		for _, cg := range f.Comments {
			for _, c := range cg.List {
				if strings.HasPrefix(c.Text, "//go:build") && c.Pos() < f.Package {
					expr := strings.TrimSpace(strings.TrimPrefix(c.Text, "//go:build"))
					if strings.Contains(expr, "!linux") || expr == "windows" || expr == "darwin" {
						skip = true
					}
				}
			}
		}
		if skip {
			continue
		}
		for _, d := range f.Decls {
			fd, ok := d.(*ast.FuncDecl)
			if !ok || fd.Recv != nil || fd.Name.Name != "relaySpliceCopyExact" {
				continue
			}
			if fn != nil {
				fail("relaySpliceCopyExact is declared more than once")
			}
			fn, file = fd, f
		}
	}
	if fn == nil || fn.Body == nil {
		fail("func relaySpliceCopyExact not found in " + dir)
	}
	params := exprString(fset, fn.Type.Params)
	results := ""
	if fn.Type.Results != nil {
		results = exprString(fset, fn.Type.Results)
	}
	var ptypes []string
	for _, f := range fn.Type.Params.List {
		for range f.Names {
			ptypes = append(ptypes, exprString(fset, f.Type))
		}
	}
	if strings.Join(ptypes, ",") != "context.Context,*net.TCPConn,*net.TCPConn,func(int64)" {
		fail("parameter list of relaySpliceCopyExact changed: " + params)
	}
	var rtypes []string
	if fn.Type.Results != nil {
		for _, f := range fn.Type.Results.List {
			rtypes = append(rtypes, exprString(fset, f.Type))
		}
	}
	if strings.Join(rtypes, ",") != "int64,error" {
		fail("result list of relaySpliceCopyExact changed: " + results)
	}
	// rewrite the two helper calls; refuse anything that already uses a hook name
	counts := map[string]int{}
	ast.Inspect(fn.Body, func(n ast.Node) bool {
		switch x := n.(type) {
		case *ast.Ident:
			if strings.HasPrefix(x.Name, "c05") {
				fail("the function uses an identifier reserved for the harness: " + x.Name)
			}
		case *ast.CallExpr:
			if id, ok := x.Fun.(*ast.Ident); ok {
				switch id.Name {
				case "spliceSocketToPipe", "splicePipeToSocket":
					if len(x.Args) != 3 {
						fail("call of " + id.Name + " no longer has three arguments")
					}
					counts[id.Name]++
				}
			}
		}
		return true
	})
	if counts["spliceSocketToPipe"] < 1 || counts["splicePipeToSocket"] < 1 {
		fail(fmt.Sprintf("relaySpliceCopyExact no longer calls both splice helpers (%v)", counts))
	}
	ast.Inspect(fn.Body, func(n ast.Node) bool {
		if x, ok := n.(*ast.CallExpr); ok {
			if id, ok := x.Fun.(*ast.Ident); ok {
				switch id.Name {
				case "spliceSocketToPipe":
					id.Name = "c05SpliceInHook"
				case "splicePipeToSocket":
					id.Name = "c05SpliceOutHook"
				}
			}
		}
		return true
	})
	// imports: those of the source file that the function body (or its signature) mentions
	used := map[string]bool{}
	ast.Inspect(fn, func(n ast.Node) bool {
		if s, ok := n.(*ast.SelectorExpr); ok {
			if id, ok := s.X.(*ast.Ident); ok {
				used[id.Name] = true
			}
		}
		return true
	})
	var imps []string
	for _, im := range file.Imports {
		path := strings.Trim(im.Path.Value, "\"")
		name := filepath.Base(path)
		spec := im.Path.Value
		if im.Name != nil {
			name = im.Name.Name
			spec = im.Name.Name + " " + im.Path.Value
		}
		if used[name] {
			imps = append(imps, "\t"+spec)
		}
	}
	var b bytes.Buffer
	fmt.Fprintf(&b, "// Code generated by /verif/translators/c05splice from %s (func relaySpliceCopyExact). DO NOT EDIT.\n\n", filepath.Base(fset.Position(fn.Pos()).Filename))
	fmt.Fprintf(&b, "package control\n\nimport (\n%s\n)\n\n", strings.Join(imps, "\n"))
	fmt.Fprintf(&b, "const c05SpliceGenAvailable = true\n\n")
	fn.Name.Name = "c05GenSpliceCopyExact"
	fn.Doc = nil
	if err := printer.Fprint(&b, fset, fn); err != nil {
		fail(err.Error())
	}
	b.WriteString("\n")
	if err := os.WriteFile(out, b.Bytes(), 0o644); err != nil {
		fail(err.Error())
	}
	fmt.Printf("c05splice: ok (%d + %d helper calls rewritten)\n", counts["spliceSocketToPipe"], counts["splicePipeToSocket"])
}
