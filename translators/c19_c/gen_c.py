#!/usr/bin/env python3
"""
C19 translator, C side.  Regenerated on every check run; nothing here is a hand-written fact about dae.

  1. clang -Xclang -ast-dump=json (BPF target, /verif/harness/c shim headers) of the UNMODIFIED
     control/kern/tproxy.c  ->  every struct/union/enum/map/program/global that is DEFINED in a file
     under control/kern (tproxy.c, ebpf_sync_defs.h), with its field list (nested anonymous records
     inlined, nested named records of the same directory flattened to scalar leaves).
  2. a generated probe translation unit `#include "tproxy.c"` + one constant table whose initialisers
     are sizeof/offsetof/signedness/enum/macro expressions; compiled with `-target bpf -S -emit-llvm`
     and the folded numbers read back from the IR (the compiler's own opinion of the BPF ABI; nothing
     is executed).  The same table compiled natively is used by the harness as a cross-check.
  3. output:  <out>/c19_c.json   (machine readable, used to generate the native decoder harness)
              <lean>/CLayout.lean, <lean>/CConsts.lean

usage: gen_c.py <repo> <verif> <outdir> <leandir>
"""
import json, os, re, subprocess, sys

KERN_REL = os.path.join("control", "kern")


def clang_base(verif, target):
    base = ["clang"]
    if target == "bpf":
        base += ["-target", "bpf", "-I/usr/include/x86_64-linux-gnu", "-D__x86_64__"]
    base += ["-I" + os.path.join(verif, "harness", "c"), "-Wno-everything"]
    return base


def run(cmd, **kw):
    p = subprocess.run(cmd, stdout=subprocess.PIPE, stderr=subprocess.PIPE, **kw)
    if p.returncode != 0:
        sys.stderr.write("command failed: %s\n%s\n" % (" ".join(cmd), p.stderr.decode()[-4000:]))
        sys.exit(3)
    return p.stdout


# ----------------------------------------------------------------------------- AST walk
class FileTracker:
    """clang's JSON prints `file` in a location only when it differs from the previously printed
    location, so the current file has to be tracked over the whole document in print order."""

    def __init__(self):
        self.cur = None

    def loc(self, l):
        """update from one bare location object; returns the file it is in."""
        if not isinstance(l, dict):
            return self.cur
        if "spellingLoc" in l or "expansionLoc" in l:
            self.loc(l.get("spellingLoc"))
            return self.loc(l.get("expansionLoc"))
        if "file" in l:
            self.cur = l["file"]
        return self.cur

    def walk_rest(self, node, skip_loc=False):
        """walk everything of node (in order) to keep `cur` up to date."""
        if isinstance(node, dict):
            for k, v in node.items():
                if k == "includedFrom":
                    continue
                if k == "loc":
                    if not skip_loc:
                        self.loc(v)
                    continue
                if k == "range":
                    self.loc(v.get("begin"))
                    self.loc(v.get("end"))
                    continue
                if isinstance(v, (dict, list)):
                    self.walk_rest(v)
        elif isinstance(node, list):
            for x in node:
                self.walk_rest(x)


def const_init(d):
    """value of a `static const <int> x = <literal>;` (tentative definition = 0); None if not a literal."""
    inner = [x for x in d.get("inner", []) if not x.get("kind", "").endswith("Attr")]
    if not inner:
        return 0
    n = inner[0]
    while n.get("kind") in ("ImplicitCastExpr", "ParenExpr", "ConstantExpr") and "value" not in n and n.get("inner"):
        n = n["inner"][0]
    if "value" in n:
        try:
            return int(n["value"])
        except ValueError:
            return None
    return None


def has_attr(d, kind):
    return any(x.get("kind") == kind for x in d.get("inner", []))


def type_str(t):
    return (t.get("desugaredQualType") or t.get("qualType") or "").strip()


def strip_cv(s):
    return re.sub(r"\b(const|volatile)\b\s*", "", s).strip()


class Model:
    def __init__(self):
        self.records = {}      # key "struct x"/"union x" -> node (all files)
        self.kern_records = []  # keys, in source order, defined under control/kern
        self.enums = []        # (name or "", [const names]) under control/kern
        self.maps = []         # (varname, record node)
        self.progs = []        # function names with a section attribute
        self.globals = []      # (name, typestr) other section/const globals of interest
        self.static_consts = []  # static const integer variables (zero_key ...)
        self.typedefs = {}


def collect(ast, kern_dir):
    m = Model()
    ft = FileTracker()
    last_anon = None
    for d in ast["inner"]:
        f = ft.loc(d.get("loc"))
        in_kern = bool(f) and os.path.dirname(os.path.abspath(f)) == kern_dir
        k = d.get("kind")
        if k == "TypedefDecl":
            m.typedefs[d.get("name")] = type_str(d.get("type", {}))
        if k == "RecordDecl" and d.get("completeDefinition"):
            if d.get("name"):
                key = d["tagUsed"] + " " + d["name"]
                m.records[key] = d
                if in_kern:
                    m.kern_records.append(key)
            else:
                last_anon = d
        elif k == "EnumDecl" and in_kern:
            m.enums.append((d.get("name", ""), [c["name"] for c in d.get("inner", []) if c.get("kind") == "EnumConstantDecl"]))
        elif k == "VarDecl" and in_kern:
            ts = type_str(d.get("type", {}))
            if has_attr(d, "SectionAttr"):
                rec = None
                if "unnamed" in ts or "anonymous" in ts:
                    rec = last_anon
                else:
                    rec = m.records.get(strip_cv(ts))
                fields = [x.get("name") for x in (rec or {}).get("inner", []) if x.get("kind") == "FieldDecl"]
                if rec is not None and "type" in fields:
                    m.maps.append((d["name"], rec))
                else:
                    m.globals.append((d["name"], strip_cv(ts)))
            elif d.get("storageClass") == "static" and "const" in ts and re.search(r"\b(int|short|long|char)\b", ts) and "[" not in ts and "*" not in ts:
                m.static_consts.append((d["name"], const_init(d)))
            elif "const" in ts and d.get("storageClass") != "static" and strip_cv(ts) in m.records:
                # const volatile struct dae_param PARAM = {};  (.rodata, rewritten at load time)
                m.globals.append((d["name"], strip_cv(ts)))
        elif k == "FunctionDecl" and in_kern and has_attr(d, "SectionAttr") and any(
                x.get("kind") == "CompoundStmt" for x in d.get("inner", [])):
            m.progs.append(d["name"])
        ft.walk_rest(d, skip_loc=True)
    return m


# ----------------------------------------------------------------------------- leaves
def split_array(ts):
    dims = [int(x) for x in re.findall(r"\[(\d+)\]", ts)]
    base = ts.split("[")[0].strip()
    return base, dims


class ProbeTable:
    def __init__(self):
        self.exprs = []

    def add(self, expr):
        self.exprs.append(expr)
        return len(self.exprs) - 1


def expand(model, kern_dir_keys, ctype, rec, prefix, probe, leaves, depth=0):
    """append leaf descriptors (with probe indices) for record node `rec` reached through the member
    designator prefix `prefix` of the outer C type `ctype`."""
    anon = None
    for x in rec.get("inner", []):
        k = x.get("kind")
        if k == "RecordDecl" and x.get("completeDefinition") and not x.get("name"):
            anon = x
            continue
        if k != "FieldDecl":
            continue
        name = x.get("name")
        ts = strip_cv(type_str(x.get("type", {})))
        if x.get("isBitfield"):
            leaves.append({"path": prefix + (name or "?"), "bitfield": True})
            continue
        if not name:
            # anonymous struct/union member: its members are members of the enclosing record
            if anon is not None:
                expand(model, kern_dir_keys, ctype, anon, prefix, probe, leaves, depth + 1)
            continue
        path = prefix + name
        base, dims = split_array(ts)
        sub = None
        if "unnamed" in base or "anonymous" in base:
            sub = anon
        elif base in model.records and base in kern_dir_keys:
            sub = model.records[base]
        if "*" in ts or "(" in ts and "unnamed" not in ts and "anonymous" not in ts:
            leaves.append({"path": path, "pointer": True})
            continue
        if sub is not None and not dims:
            expand(model, kern_dir_keys, ctype, sub, path + ".", probe, leaves, depth + 1)
            continue
        lv = "((%s *)0)->%s" % (ctype, path)
        elem = lv + "".join("[0]" for _ in dims)
        leaf = {"path": path, "ctype": ts}
        leaf["i_off"] = probe.add("__builtin_offsetof(%s, %s)" % (ctype, path))
        leaf["i_esize"] = probe.add("sizeof(%s)" % elem)
        leaf["i_count"] = probe.add("sizeof(%s) / sizeof(%s)" % (lv, elem))
        if base.startswith("struct ") or base.startswith("union ") or (
                model.typedefs.get(base, "").startswith(("struct ", "union "))):
            leaf["cls"] = "recd"
        elif base.startswith("enum "):
            leaf["cls"] = "enum"
        else:
            leaf["cls"] = "int"
            leaf["i_signed"] = probe.add("(((__typeof__(%s))-1) < (__typeof__(%s))0)" % (elem, elem))
            leaf["i_bool"] = probe.add("__builtin_types_compatible_p(__typeof__(%s), _Bool)" % elem)
        leaves.append(leaf)


MACRO_RE = re.compile(r"^[ \t]*#[ \t]*define[ \t]+([A-Za-z_]\w*)(\(?)((?:[^\n\\]|\\\n|\\.)*)$", re.M)


def strip_comments(src):
    src = re.sub(r"/\*.*?\*/", " ", src, flags=re.S)
    return re.sub(r"//[^\n]*", "", src)


def collect_macros(paths):
    """object-like macros whose body is an integer constant expression built from literals, operators
    and other such macros."""
    cand = {}
    order = []
    for p in paths:
        src = strip_comments(open(p, encoding="utf-8", errors="replace").read())
        for mm in MACRO_RE.finditer(src):
            name, paren, body = mm.group(1), mm.group(2), mm.group(3)
            if paren == "(":
                cand.pop(name, None)
                continue
            body = body.replace("\\\n", " ").strip()
            if not body:
                continue
            if name not in cand:
                order.append(name)
            cand[name] = body
    ok = {}
    changed = True
    tok_re = re.compile(r"[A-Za-z_]\w*|0[xX][0-9a-fA-F]+[uUlL]*|\d+[uUlL]*|[()+\-*/%<>|&~^ \t]+")
    while changed:
        changed = False
        for n in order:
            if n in ok:
                continue
            body = cand[n]
            pos, good = 0, True
            for t in tok_re.finditer(body):
                if t.start() != pos:
                    good = False
                    break
                pos = t.end()
                s = t.group(0)
                if re.match(r"[A-Za-z_]", s) and s not in ok:
                    good = False
                    break
            if good and pos == len(body):
                ok[n] = body
                changed = True
    return [n for n in order if n in ok], [n for n in order if n not in ok]


def lean_name(s):
    return 'n!"' + s.replace("\\", "\\\\").replace('"', '\\"') + '"'


def lean_str(s):
    return '"' + s.replace("\\", "\\\\").replace('"', '\\"') + '"'


def main():
    repo, verif, outdir, leandir = sys.argv[1:5]
    kern_dir = os.path.abspath(os.path.join(repo, KERN_REL))
    src = os.path.join(kern_dir, "tproxy.c")
    os.makedirs(outdir, exist_ok=True)
    os.makedirs(leandir, exist_ok=True)

    ast = json.loads(run(clang_base(verif, "bpf") + ["-fsyntax-only", "-Xclang", "-ast-dump=json", "-x", "c", src]))
    model = collect(ast, kern_dir)
    kern_keys = set(model.kern_records)

    probe = ProbeTable()
    recs = []
    for key in model.kern_records:
        node = model.records[key]
        leaves = []
        expand(model, kern_keys, key, node, "", probe, leaves)
        recs.append({"key": key, "name": key.split(" ", 1)[1], "tag": key.split(" ", 1)[0],
                     "i_size": probe.add("sizeof(%s)" % key), "i_align": probe.add("_Alignof(%s)" % key),
                     "leaves": leaves})

    enums = []
    for name, consts in model.enums:
        e = {"name": name, "consts": [{"name": c, "i_val": probe.add("(long long)(%s)" % c)} for c in consts]}
        if name:
            e["i_size"] = probe.add("sizeof(enum %s)" % name)
        enums.append(e)

    macro_paths = [src] + sorted(
        os.path.join(kern_dir, f) for f in os.listdir(kern_dir) if f.endswith(".h"))
    macros_ok, macros_skipped = collect_macros(macro_paths)
    macros = [{"name": n, "i_val": probe.add("(long long)(%s)" % n)} for n in macros_ok]
    sconsts = [{"name": n, "val": v} for n, v in model.static_consts if v is not None]
    extra = os.path.join(os.path.dirname(os.path.abspath(__file__)), "extra_consts.txt")
    known = set(macros_ok) | {c for _, cs in model.enums for c in cs}
    for line in open(extra):
        n = line.split("#")[0].strip()
        if n and n not in known:
            macros.append({"name": n, "i_val": probe.add("(long long)(%s)" % n)})

    maps = []
    for name, rec in model.maps:
        mp = {"name": name, "attrs": {}, "keyType": "", "valType": ""}
        for x in rec.get("inner", []):
            if x.get("kind") != "FieldDecl":
                continue
            fn, ts = x.get("name"), x.get("type", {}).get("qualType", "")
            if re.match(r"^int \(\*\)\[\d+\]$", ts):
                mp["attrs"][fn] = probe.add("sizeof(*%s.%s) / sizeof(int)" % (name, fn))
            elif fn in ("key", "value"):
                inner = re.sub(r"^typeof\((.*)\) \*$", r"\1", ts).strip()
                mp["keyType" if fn == "key" else "valType"] = re.sub(r"\s+\[", "[", inner)
                mp["attrs"][fn + "_size_t"] = probe.add("sizeof(*%s.%s)" % (name, fn))
            else:
                mp.setdefault("other", []).append(fn)
        maps.append(mp)

    globs = [{"name": n, "ctype": t, "i_size": probe.add("sizeof(%s)" % n)} for n, t in model.globals]

    # ---- probe TU
    probe_c = os.path.join(outdir, "c19_probe.c")
    with open(probe_c, "w") as fh:
        fh.write('#include "%s"\n' % src)
        fh.write("const long long c19_probe_table[%d] = {\n" % max(len(probe.exprs), 1))
        for i, e in enumerate(probe.exprs):
            fh.write("  /* %d */ (long long)(%s),\n" % (i, e))
        fh.write("};\n")
        fh.write("#ifdef C19_PROBE_MAIN\n#include <stdio.h>\nint main(void){for(unsigned i=0;i<sizeof(c19_probe_table)/sizeof(c19_probe_table[0]);i++)printf(\"%lld\\n\",c19_probe_table[i]);return 0;}\n#endif\n")
    ir = run(clang_base(verif, "bpf") + ["-O0", "-S", "-emit-llvm", "-o", "-", "-x", "c", probe_c]).decode()
    mm = re.search(r"@c19_probe_table = .*?\[(.*?)\], align", ir, re.S)
    if not mm:
        sys.stderr.write("probe table not found in IR\n")
        sys.exit(3)
    vals = [int(x) for x in re.findall(r"i64 (-?\d+)", mm.group(1))]
    if len(vals) != len(probe.exprs):
        sys.stderr.write("probe table length %d != %d\n" % (len(vals), len(probe.exprs)))
        sys.exit(3)

    def V(i):
        return vals[i]

    out = {"records": [], "enums": [], "macros": [], "static_consts": [], "maps": [], "globals": [], "progs": model.progs,
           "macros_skipped": macros_skipped, "probe_exprs": probe.exprs, "probe_vals": vals}
    for r in recs:
        leaves = []
        notes = []
        for l in r["leaves"]:
            if l.get("bitfield") or l.get("pointer"):
                notes.append(l["path"])
                continue
            cls = l["cls"]
            if cls == "int":
                cls = "bool" if V(l["i_bool"]) else ("sint" if V(l["i_signed"]) else "uint")
            leaves.append({"path": l["path"], "off": V(l["i_off"]), "esize": V(l["i_esize"]), "count": V(l["i_count"]),
                           "cls": cls, "ctype": l["ctype"]})
        out["records"].append({"name": r["name"], "tag": r["tag"], "size": V(r["i_size"]), "align": V(r["i_align"]),
                               "leaves": leaves, "unmodelled_members": notes})
    for e in enums:
        out["enums"].append({"name": e["name"], "size": V(e["i_size"]) if "i_size" in e else 0,
                             "consts": [{"name": c["name"], "val": V(c["i_val"])} for c in e["consts"]]})
    out["macros"] = [{"name": x["name"], "val": V(x["i_val"])} for x in macros]
    out["static_consts"] = sconsts
    for mp in maps:
        a = {k: V(i) for k, i in mp["attrs"].items()}
        ks = a.get("key_size_t", a.get("key_size", 0))
        vs = a.get("value_size_t", a.get("value_size", 0))
        out["maps"].append({"name": mp["name"], "type": a.get("type", 0), "key_size": ks, "value_size": vs,
                            "max_entries": a.get("max_entries", 0), "map_flags": a.get("map_flags", 0),
                            "pinning": a.get("pinning", 0), "keyType": mp["keyType"], "valType": mp["valType"]})
    out["globals"] = [{"name": g["name"], "ctype": g["ctype"], "size": V(g["i_size"])} for g in globs]
    # ---- the build-time override of MAX_MATCH_SET_LEN (Makefile: -DMAX_MATCH_SET_LEN=$(X) for C and
    # -X …consts.MaxMatchSetLen_=$(X) for Go): the C program's dependent sizes for one non-default value
    ov = []
    probe2 = os.path.join(outdir, "c19_probe_override.c")
    with open(probe2, "w") as fh:
        fh.write('#include "%s"\n' % src)
        fh.write("const long long c19_override_table[5] = { (long long)(MAX_MATCH_SET_LEN), (long long)(sizeof(((struct domain_routing *)0)->bitmap) / sizeof(__u32)),\n"
                 "  (long long)(sizeof(*routing_map.max_entries) / sizeof(int)), (long long)(sizeof(*lpm_array_map.max_entries) / sizeof(int)), (long long)(MAX_LPM_NUM) };\n")
    p2 = subprocess.run(clang_base(verif, "bpf") + ["-DMAX_MATCH_SET_LEN=2048", "-O0", "-S", "-emit-llvm", "-o", "-", "-x", "c", probe2],
                        stdout=subprocess.PIPE, stderr=subprocess.PIPE)
    if p2.returncode == 0:
        m2 = re.search(r"@c19_override_table = .*?\[(.*?)\], align", p2.stdout.decode(), re.S)
        if m2:
            ov = [int(x) for x in re.findall(r"i64 (-?\d+)", m2.group(1))]
    mk = {"default": -1, "to_c": 0, "to_go": 0}
    mkpath = os.path.join(repo, "Makefile")
    if os.path.exists(mkpath):
        mt = open(mkpath, encoding="utf-8", errors="replace").read()
        mm3 = re.search(r"^MAX_MATCH_SET_LEN\s*[?:]?=\s*(\d+)\s*(?:#.*)?$", mt, re.M)
        if mm3:
            mk["default"] = int(mm3.group(1))
        mk["to_c"] = 1 if re.search(r"-DMAX_MATCH_SET_LEN=\$[({]MAX_MATCH_SET_LEN[)}]", mt) else 0
        mk["to_go"] = 1 if re.search(r"-X\s+\S*common/consts\.MaxMatchSetLen_=\$[({]MAX_MATCH_SET_LEN[)}]", mt) else 0
    out["override2048"] = ov
    out["makefile"] = mk
    # section of every SEC("…") function, from the source text (clang's JSON omits the attribute's string)
    text = strip_comments(open(src, encoding="utf-8", errors="replace").read())
    secs = {}
    for mm2 in re.finditer(r'SEC\("([^"]+)"\)\s*(?:static\s+)?(?:__\w+\s+)*int\s+(\w+)\s*\(', text):
        secs[mm2.group(2)] = mm2.group(1)
    out["prog_sections"] = [{"name": p, "section": secs.get(p, ""), "kind": secs.get(p, "").split("/")[0]} for p in model.progs]
    json.dump(out, open(os.path.join(outdir, "c19_c.json"), "w"), indent=1)

    # ---- Lean
    def leaf_lean(l):
        return "⟨%s, %d, %d, %d, .%s, false⟩" % (lean_name(l["path"]), l["off"], l["esize"], l["count"], l["cls"])

    with open(os.path.join(leandir, "CLayout.lean"), "w") as fh:
        fh.write("import DaeVerif.C19.Types\n/-! GENERATED by translators/c19_c/gen_c.py from control/kern/tproxy.c (clang, BPF target). Do not edit. -/\n")
        fh.write("namespace DaeVerif.C19.Gen\nopen DaeVerif.C19\n\n")
        fh.write("def cRecs : List Rec := [\n")
        fh.write(",\n".join(
            "  ⟨%s, %d, %d, [\n    %s]⟩" % (lean_name(r["name"]), r["size"], r["align"], ",\n    ".join(leaf_lean(l) for l in r["leaves"]))
            for r in out["records"]))
        fh.write("]\n\n")
        fh.write("def cMaps : List CMap := [\n")
        def rec_of(t):
            mm = re.match(r"^(?:struct|union) (\w+)$", t)
            return mm.group(1) if mm else ""
        fh.write(",\n".join("  ⟨%s, %d, %d, %d, %d, %s, %s, %s, %s⟩" % (
            lean_name(mp["name"]), mp["type"], mp["key_size"], mp["value_size"], mp["max_entries"],
            lean_str(mp["keyType"]), lean_str(mp["valType"]), lean_name(rec_of(mp["keyType"])),
            lean_name(rec_of(mp["valType"]))) for mp in out["maps"]))
        fh.write("]\n\n")
        fh.write("def cProgs : List Name := [%s]\n\n" % ", ".join(lean_name(p) for p in out["progs"]))
        fh.write("/-- (program, full section name, section kind = the part before `/`) -/\n")
        fh.write("def cProgSections : List (Name × Name × Name) := [%s]\n\n" % ", ".join(
            "(%s, %s, %s)" % (lean_name(p["name"]), lean_name(p["section"]), lean_name(p["kind"])) for p in out["prog_sections"]))
        fh.write("/-- (map, map_flags, pinning) -/\n")
        fh.write("def cMapAttrs : List (Name × Nat × Nat) := [%s]\n\n" % ", ".join(
            "(%s, %d, %d)" % (lean_name(mp["name"]), mp["map_flags"], mp["pinning"]) for mp in out["maps"]))
        fh.write("def cGlobals : List (Name × String × Nat) := [%s]\n\n" % ", ".join(
            "(%s, %s, %d)" % (lean_name(g["name"]), lean_str(g["ctype"]), g["size"]) for g in out["globals"]))
        fh.write("end DaeVerif.C19.Gen\n")
    with open(os.path.join(leandir, "CConsts.lean"), "w") as fh:
        fh.write("import DaeVerif.C19.Types\n/-! GENERATED by translators/c19_c/gen_c.py. Do not edit. -/\n")
        fh.write("namespace DaeVerif.C19.Gen\nopen DaeVerif.C19\n\n")
        rows = []
        for e in out["enums"]:
            for c in e["consts"]:
                rows.append((c["name"], c["val"]))
        for x in out["macros"] + out["static_consts"]:
            rows.append((x["name"], x["val"]))
        fh.write("/-- enum constants, integer `#define`s and `static const` integers of control/kern, as the compiler folds them. -/\n")
        fh.write("def cConsts : List (Name × Int) := [\n")
        fh.write(",\n".join("  (%s, %d)" % (lean_name(n), v) for n, v in rows))
        fh.write("]\n\n")
        fh.write("/-- (enum name, sizeof, constant names in declaration order) -/\n")
        fh.write("def cEnums : List (Name × Nat × List Name) := [\n")
        fh.write(",\n".join("  (%s, %d, [%s])" % (lean_name(e["name"]), e["size"], ", ".join(lean_name(c["name"]) for c in e["consts"]))
                            for e in out["enums"]))
        fh.write("]\n\n/-- the C program compiled with -DMAX_MATCH_SET_LEN=2048: [MAX_MATCH_SET_LEN, domain_routing.bitmap words, routing_map max_entries, lpm_array_map max_entries, MAX_LPM_NUM] -/\n")
        fh.write("def cOverride2048 : List Nat := [%s]\n\n" % ", ".join(str(x) for x in out["override2048"]))
        fh.write("/-- Makefile: default of MAX_MATCH_SET_LEN (or none), passes $(MAX_MATCH_SET_LEN) to the C compiler, passes it to the Go linker -/\n")
        fh.write("def makefileMaxMatchSetLen : Option Nat × Bool × Bool := (%s, %s, %s)\n" % (
            "some %d" % out["makefile"]["default"] if out["makefile"]["default"] >= 0 else "none",
            "true" if out["makefile"]["to_c"] else "false", "true" if out["makefile"]["to_go"] else "false"))
        fh.write("\nend DaeVerif.C19.Gen\n")
    print("c19 gen_c: %d records, %d maps, %d enums, %d macros (%d skipped), %d programs, %d probe values" % (
        len(out["records"]), len(out["maps"]), len(out["enums"]), len(out["macros"]), len(macros_skipped),
        len(out["progs"]), len(vals)))


if __name__ == "__main__":
    main()
