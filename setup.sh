#!/bin/sh
# MANIFEST.setup_cmd: build the framework offline from files on disk.
set -e
cd "$(dirname "$0")"
export GOFLAGS=-mod=mod GOPROXY=off
mkdir -p .cache evidence replays
# 1. Lean: every property module + every driver
cd lean
TARGETS=""
for d in DaeVerif/C*/; do
  c=$(basename "$d")
  [ -f "$d/Props.lean" ] && TARGETS="$TARGETS DaeVerif.$c.Props"
  [ -f "$d/Main.lean" ] && TARGETS="$TARGETS $(echo "$c" | tr 'C' 'c')drv"
done
lake build DaeVerif.Common.Audit $TARGETS
cd ..
# 2. warm the Go build cache for the packages the harnesses compile into
(cd /repo && go build -tags dae_stub_ebpf ./... && go vet -tags dae_stub_ebpf ./control/ >/dev/null 2>&1 || true)
echo setup-ok
