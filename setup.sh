#!/bin/sh
# MANIFEST.setup_cmd: build the framework offline from files on disk.
cd "$(dirname "$0")"
export GOFLAGS=-mod=mod GOPROXY=off
mkdir -p .cache evidence replays
# 1. Lean: the property modules + drivers of every check registered in MANIFEST.json
PROPS=$(python3 -c "import json; print(' '.join(c['property_id'] for c in json.load(open('MANIFEST.json'))['checks']))")
# regenerated model parts (git-ignored) must exist before lake can build them
[ -f translators/c19_regen.py ] && (python3 translators/c19_regen.py >/dev/null 2>&1 || echo 'setup: c19_regen failed')
cd lean
lake build DaeVerif.Common.Audit DaeVerif.Common.Proto DaeVerif.Common.RuleScan || exit 1
rc=0
for c in $PROPS; do
  lc=$(echo "$c" | tr 'C' 'c')
  T=""
  [ -f "DaeVerif/$c/Props.lean" ] && T="$T DaeVerif.$c.Props"
  [ -f "DaeVerif/$c/Main.lean" ] && T="$T ${lc}drv"
  if ! lake build $T; then echo "setup: lake build failed for $c"; rc=1; fi
done
# cross-property compositions (braces, not a subshell: a failure must reach rc)
[ -f DaeVerif/Compose/Routing.lean ] && { lake build DaeVerif.Compose.Routing || rc=1; }
[ -f DaeVerif/Compose/KernelDomain.lean ] && { lake build DaeVerif.Compose.KernelDomain || rc=1; }
cd ..
# 2. warm the Go build cache for the packages the harnesses compile into
(cd /repo && go build -tags dae_stub_ebpf ./... ) || rc=1
[ $rc = 0 ] && echo setup-ok
exit $rc
