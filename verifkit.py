#!/usr/bin/env python3
"""
verifkit — shared machinery of the /verif checks (see DESIGN.md §3).

One check run = prove (lake build + axiom audit of DaeVerif.<Cxx>.Props)
              + tie   (Go/C harness calls the real code from /repo's working tree, the Lean
                       driver evaluates the model on the same operation lines, outputs diffed)
              + search/report (replay file, VIOLATION / KNOWN-FINDING lines, evidence json).

Nothing in here imports dae; everything that touches dae is an overlay `_test.go` file that is
compiled inside /repo's own module with `go test -c -overlay`.
"""
import json, os, re, subprocess, sys, time, hashlib, shutil, glob

VERIF = os.path.dirname(os.path.abspath(__file__))
REPO = os.environ.get("VERIF_REPO", "/repo")
LEAN = os.path.join(VERIF, "lean")
CACHE = os.path.join(VERIF, ".cache")
ALLOWED_AXIOMS = {"propext", "Classical.choice", "Quot.sound"}
FORBIDDEN = re.compile(
    r"\bsorry\b|\badmit\b|^\s*axiom\s|native_decide|bv_decide|implemented_by|\bunsafe\s|maxHeartbeats\s+0\b|\bpartial\s+def\b"
)

TRUSTED_BASE_COMMON = [
    "Lean 4.33.0 kernel (lake build); axioms admitted in property theorems: propext, Classical.choice, Quot.sound only (audited by #audit_namespace = Lean.collectAxioms on every run)",
    "correspondence harness: Go overlay test files under /verif/harness compiled into /repo's packages (go test -c -overlay) + seeded generators; what was not generated was not compared",
    "line-protocol drivers (lean_exe, core-only) evaluate the same Lean definitions the theorems are about",
]


def go_env():
    env = dict(os.environ)
    env["GOFLAGS"] = "-mod=mod"
    env["GOPROXY"] = "off"
    env.pop("GOSUMDB", None)
    # default GOTOOLCHAIN=auto lets /usr/bin/go (1.23) switch to the cached go1.26.0 offline
    if env.get("GOTOOLCHAIN") == "local":
        env.pop("GOTOOLCHAIN")
    return env


def sh(cmd, cwd=None, env=None, timeout=None, input_bytes=None):
    t0 = time.time()
    p = subprocess.run(cmd, cwd=cwd, env=env, stdout=subprocess.PIPE, stderr=subprocess.STDOUT,
                       timeout=timeout, input=input_bytes, shell=isinstance(cmd, str))
    return p.returncode, p.stdout.decode("utf-8", "replace"), time.time() - t0


class Ctx:
    def __init__(self, prop, tier, seed):
        self.prop = prop
        self.tier = tier
        self.seed = seed
        self.t0 = time.time()
        self.out = os.path.join(CACHE, "run", f"{prop}-{tier}-{seed}")
        if REPO != "/repo":   # a scratch worktree under test gets a run directory of its own
            self.out += "-" + hashlib.sha1(REPO.encode()).hexdigest()[:8]
        import fcntl
        os.makedirs(os.path.join(CACHE, "locks"), exist_ok=True)
        self._lock = open(os.path.join(CACHE, "locks", os.path.basename(self.out) + ".lock"), "w")
        fcntl.flock(self._lock, fcntl.LOCK_EX)   # held until the process exits
        shutil.rmtree(self.out, ignore_errors=True)
        os.makedirs(self.out, exist_ok=True)
        self.bindir = os.path.join(self.out, "bin")
        os.makedirs(self.bindir, exist_ok=True)
        os.makedirs(os.path.join(VERIF, "evidence"), exist_ok=True)
        os.makedirs(os.path.join(VERIF, "replays"), exist_ok=True)
        self.violations = []      # (replay_path, what, no_input)
        self.known_hits = []
        self.obligations = []     # [(name, axioms, ok)]
        self.proof_failures = []  # text
        self.assumptions = []
        self.trusted = list(TRUSTED_BASE_COMMON)
        self.cov = {}
        self.samples = []
        self.known = load_known(prop)
        self.log = open(os.path.join(self.out, "check.log"), "w")

    # ------------------------------------------------------------------ logging
    def say(self, *a):
        msg = " ".join(str(x) for x in a)
        print(msg, flush=True)
        self.log.write(msg + "\n")
        self.log.flush()

    # ------------------------------------------------------------------ Lean side
    def lake_build(self, targets, timeout=3000):
        rc, out, dt = sh(["lake", "build"] + list(targets), cwd=LEAN, timeout=timeout)
        self.log.write(f"$ lake build {' '.join(targets)}  [{dt:.1f}s rc={rc}]\n{out}\n")
        return rc == 0, out

    def forbidden_scan(self, rel_globs):
        """grep the Lean sources of this property for sorry/admit/axiom/native_decide/... outside comments."""
        hits = []
        for g in rel_globs:
            for path in sorted(glob.glob(os.path.join(LEAN, g), recursive=True)):
                src = open(path, encoding="utf-8").read()
                src = strip_lean_comments(src)
                for i, line in enumerate(src.split("\n"), 1):
                    if FORBIDDEN.search(line):
                        # `partial def` is only tolerated in Main.lean IO loops
                        if "partial" in line and path.endswith("Main.lean"):
                            continue
                        hits.append(f"{os.path.relpath(path, LEAN)}:{i}: {line.strip()}")
        return hits

    def prove(self, modules, namespaces, scan_globs, extra_targets=()):
        """Build the property modules, audit axioms of every theorem in `namespaces`.
        Returns True iff every obligation is discharged.  Failures are recorded in
        self.proof_failures (names of theorems / build errors)."""
        ok, out = self.lake_build(list(modules) + list(extra_targets))
        if not ok:
            errs = [l for l in out.split("\n") if "error" in l.lower()][:40]
            self.proof_failures.append("lake build failed: " + " | ".join(errs)[:4000])
        hits = self.forbidden_scan(scan_globs)
        for h in hits:
            self.proof_failures.append("forbidden construct: " + h)
        # audit
        if ok:
            os.makedirs(os.path.join(LEAN, ".audit"), exist_ok=True)
            f = os.path.join(LEAN, ".audit", f"Audit_{self.prop}_{os.getpid()}.lean")
            with open(f, "w") as fh:
                fh.write("import DaeVerif.Common.Audit\n")
                for m in modules:
                    fh.write(f"import {m}\n")
                for ns in namespaces:
                    fh.write(f"#audit_namespace {ns}\n")
            rc, aout, dt = sh(["lake", "env", "lean", f], cwd=LEAN, timeout=1200)
            os.unlink(f)
            self.log.write(f"$ audit [{dt:.1f}s rc={rc}]\n{aout}\n")
            if rc != 0:
                self.proof_failures.append("axiom audit failed to run: " + aout[-2000:])
            for m in re.finditer(r"AUDIT (\S+) ::(.*)", aout):
                name = m.group(1)
                axs = [a.strip() for a in m.group(2).split(",") if a.strip()]
                good = set(axs) <= ALLOWED_AXIOMS
                if good and re.search(r"\.(inj|injEq|sizeOf_spec|eq_\d+|eq_def|congr_simp)$", name):
                    # declarations Lean generates for structures / definitions: audited, but not counted
                    # as proof obligations of the property
                    self.cov.setdefault("auto_generated_declarations_not_counted", []).append(name)
                    continue
                self.obligations.append((name, axs, good))
                if not good:
                    self.proof_failures.append(f"theorem {name} depends on non-admitted axioms {axs}")
            if not self.obligations:
                self.proof_failures.append("no theorems found in " + ",".join(namespaces))
            # thorough tier: re-check the compiled property modules with the toolchain's independent
            # .olean re-checker
            if self.tier == "thorough" and not self.proof_failures:
                for m in modules:
                    rc, lout, dt = sh(["lake", "env", "leanchecker", m], cwd=LEAN, timeout=1800)
                    self.log.write(f"$ leanchecker {m} [{dt:.1f}s rc={rc}]\n{lout[-2000:]}\n")
                    self.cov.setdefault("leanchecker", {})[m] = "ok" if rc == 0 else "FAILED"
                    if rc != 0:
                        self.proof_failures.append(f"leanchecker rejected {m}: {lout[-500:]}")
        else:
            # count the obligations that exist in source so evidence shows obligations > discharged
            n = 0
            for g in scan_globs:
                for path in glob.glob(os.path.join(LEAN, g), recursive=True):
                    if path.endswith("Props.lean"):
                        n += len(re.findall(r"^\s*theorem\s", strip_lean_comments(open(path).read()), re.M))
            self.obligations = [(f"unbuilt-{i}", [], False) for i in range(max(n, 1))]
        return not self.proof_failures

    def required_theorems(self, names):
        """The headline theorems a property's check relies on must exist (so that deleting or
        renaming one away cannot silently reduce the obligation set)."""
        have = {n for n, _, _ in self.obligations}
        for n in names:
            if n not in have:
                self.proof_failures.append(f"required theorem missing: {n}")

    def driver(self, exe, ops_path, out_path, timeout=3000):
        binp = os.path.join(LEAN, ".lake", "build", "bin", exe)
        with open(ops_path, "rb") as fin, open(out_path, "wb") as fout:
            t0 = time.time()
            p = subprocess.run([binp], stdin=fin, stdout=fout, stderr=subprocess.PIPE, timeout=timeout)
        self.log.write(f"$ {exe} < {ops_path} [{time.time()-t0:.1f}s rc={p.returncode}] {p.stderr.decode()[-500:]}\n")
        return p.returncode == 0

    # ------------------------------------------------------------------ Go side
    def fake_bpf_overlay(self):
        """Regenerate the synthetic bpf2go file from /repo's current bpf_stub.go / bpf_utils.go and
        return the overlay entry that lets package control build WITHOUT dae_stub_ebpf."""
        gen = os.path.join(self.out, "gen")
        os.makedirs(gen, exist_ok=True)
        outp = os.path.join(gen, f"bpf_fake_{self.prop}.go")
        if os.path.exists(outp):
            os.unlink(outp)
        rc, out, dt = sh(["go", "run", "main.go", os.path.join(REPO, "control"), outp],
                         cwd=os.path.join(VERIF, "translators", "fakebpf"), env=go_env(), timeout=600)
        self.log.write(f"$ fakebpf [{dt:.1f}s rc={rc}] {out}\n")
        if rc != 0:
            self.say("TRANSLATOR-FAILED fakebpf:", out[-2000:])
            return None
        return {os.path.join(REPO, "control", "zz_verif_bpf_fake.go"): outp}

    OPTCHAIN_FALLBACK = '''package control

import (
	"github.com/daeuniverse/dae/common/assets"
	"github.com/daeuniverse/dae/component/routing"
	"github.com/sirupsen/logrus"
)

func c01ProductionOptimizers(log *logrus.Logger, locationFinder *assets.LocationFinder) []routing.RulesOptimizer {
	return []routing.RulesOptimizer{
		&routing.AliasOptimizer{},
		&routing.DatReaderOptimizer{Logger: log, LocationFinder: locationFinder},
		&routing.MergeAndSortRulesOptimizer{},
		&routing.DeduplicateParamsOptimizer{},
	}
}

var c01ProductionOptimizerExprs = []string{"(fallback copy)"}
'''

    def optchain_overlay(self, fallback=False):
        """The optimizer chain NewControlPlane passes to routing.NewNormalizedProgram, regenerated from
        /repo's current control/control_plane.go (translators/optchain) as a Go file for package control
        (functions c01ProductionOptimizers / c01ProductionOptimizerExprs used by the routing harnesses).
        Returns (overlay dict, description)."""
        gen = os.path.join(self.out, "gen")
        os.makedirs(gen, exist_ok=True)
        chain = os.path.join(gen, f"optchain_{self.prop}.go")
        if os.path.exists(chain):
            os.unlink(chain)
        mode = "regenerated from control_plane.go"
        if not fallback:
            rc, out, dt = sh(["go", "run", "main.go", os.path.join(REPO, "control"), chain],
                             cwd=os.path.join(VERIF, "translators", "optchain"), env=go_env(), timeout=600)
            self.log.write(f"$ optchain [{dt:.1f}s rc={rc}] {out}\n")
            if rc != 0:
                fallback = True
                mode = "FALLBACK copy (production call site not extractable: %s)" % out.strip()[-200:]
        elif fallback:
            mode = "FALLBACK copy (the regenerated chain did not compile in the harness)"
        if fallback:
            open(chain, "w").write(self.OPTCHAIN_FALLBACK)
        return {os.path.join(REPO, "control", "zz_verif_optchain.go"): chain}, mode

    def go_test_build(self, pkg, harness_files, out_name, tags="dae_stub_ebpf", extra_overlay=None,
                      keep_intree_tests=False, timeout=3000, pkgname=None):
        """Compile /repo/<pkg> as a test binary with the harness files injected by -overlay.
        harness_files: paths relative to /verif/harness/overlay (or absolute)."""
        pkgdir = os.path.join(REPO, pkg)
        rep = {}
        if not keep_intree_tests:
            for f in glob.glob(os.path.join(pkgdir, "*_test.go")):
                rep[f] = ""
        for hf in harness_files:
            src = hf if os.path.isabs(hf) else os.path.join(VERIF, "harness", "overlay", hf)
            rep[os.path.join(pkgdir, "zz_verif_" + os.path.basename(src))] = src
        if extra_overlay:
            rep.update(extra_overlay)
        # shared helpers, instantiated for this package
        pkgname = pkgname or os.path.basename(pkg)
        util = os.path.join(self.out, f"vutil_{out_name}_test.go")
        tmpl = open(os.path.join(VERIF, "harness", "util", "vutil.go.tmpl")).read()
        open(util, "w").write(tmpl.replace("__PKG__", pkgname))
        rep[os.path.join(pkgdir, "zz_verif_util_test.go")] = util
        ov = os.path.join(self.out, f"overlay_{out_name}.json")
        json.dump({"Replace": rep}, open(ov, "w"), indent=1)
        # per run directory (property, tier, seed): concurrent runs never share a binary path
        binp = os.path.join(self.bindir, out_name + ".test")
        os.makedirs(os.path.dirname(binp), exist_ok=True)
        if os.path.exists(binp):
            os.unlink(binp)
        cmd = ["go", "test", "-c", "-vet=off", "-overlay", ov, "-o", binp]
        if tags:
            cmd += ["-tags", tags]
        cmd += ["./" + pkg]
        rc, out, dt = sh(cmd, cwd=REPO, env=go_env(), timeout=timeout)
        self.log.write(f"$ {' '.join(cmd)} [{dt:.1f}s rc={rc}]\n{out}\n")
        if rc != 0 or not os.path.exists(binp):
            self.say(f"HARNESS-BUILD-FAILED {pkg}:\n{out[-3000:]}")
            return None
        return binp

    def run_harness(self, binp, test, env_extra=None, timeout=3000, cwd=None):
        env = go_env()
        env["VERIF_OUT"] = self.out
        env["VERIF_SEED"] = str(self.seed)
        env["VERIF_TIER"] = self.tier
        env["VERIF_DIR"] = VERIF
        env["VERIF_REPO"] = REPO
        if env_extra:
            env.update({k: str(v) for k, v in env_extra.items()})
        cmd = [binp, "-test.run", "^" + test + "$", "-test.v", "-test.timeout", f"{timeout}s"]
        rc, out, dt = sh(cmd, cwd=cwd or self.out, env=env, timeout=timeout + 60)
        self.log.write(f"$ {' '.join(cmd)} [{dt:.1f}s rc={rc}]\n{out[-20000:]}\n")
        return rc, out

    # ------------------------------------------------------------------ differ
    def diff_streams(self, ops_path, impl_path, model_path, label, canon=None, max_report=5):
        """Line-by-line comparison.  Returns list of (lineno, op, impl, model)."""
        ops = open(ops_path, encoding="utf-8", errors="replace").read().split("\n")
        impl = open(impl_path, encoding="utf-8", errors="replace").read().split("\n")
        model = open(model_path, encoding="utf-8", errors="replace").read().split("\n")
        while ops and ops[-1] == "": ops.pop()
        while impl and impl[-1] == "": impl.pop()
        while model and model[-1] == "": model.pop()
        mism = []
        if not (len(ops) == len(impl) == len(model)):
            mism.append((0, f"<stream lengths differ: ops={len(ops)} impl={len(impl)} model={len(model)}>", "", ""))
        n = min(len(ops), len(impl), len(model))
        for i in range(n):
            a, b = impl[i], model[i]
            if canon:
                a, b = canon(a), canon(b)
            if a != b:
                mism.append((i + 1, ops[i], impl[i], model[i]))
        self.cov.setdefault("streams", {})[label] = {"lines": n, "mismatches": len(mism)}
        return mism

    # ------------------------------------------------------------------ findings / verdict
    def report(self, what, replay_obj, no_input=False, key=None):
        """Record a violation unless it matches an open known finding."""
        for k in self.known:
            if k.get("kind") == "open" and key is not None and k.get("key") == key:
                if key not in [h for h, _ in self.known_hits]:
                    self.known_hits.append((key, k.get("what", what)))
                return
        tag = hashlib.sha1((what + json.dumps(replay_obj, sort_keys=True, default=str)).encode()).hexdigest()[:10]
        path = os.path.join(VERIF, "replays", f"{self.prop}-{self.tier}-{self.seed}-{tag}.json")
        if len(self.violations) < 20:
            json.dump({"property": self.prop, "what": what, "no_failing_input_found": no_input,
                       "replay": replay_obj}, open(path, "w"), indent=1, default=str)
        self.violations.append((path, what, no_input))

    def finish(self, level="proof", checker_cmd=None, rule="", evaluations=0, distinct=0, extra_cov=None):
        # proof failures without a concrete failing input
        concrete = [v for v in self.violations if not v[2]]
        if self.proof_failures and not concrete:
            self.report("proof obligation(s) no longer check", {"failures": self.proof_failures}, no_input=True)
        elif self.proof_failures:
            self.say("PROOF-BROKEN (failing input found by correspondence):", "; ".join(self.proof_failures)[:1500])
        for key, what in self.known_hits:
            what = re.sub(r"^open:\s*property=\S+\s*", "", what)
            self.say(f"KNOWN-FINDING: property={self.prop} {what}")
        n_obl = len(self.obligations)
        n_dis = len([o for o in self.obligations if o[2]]) if not any(
            "lake build failed" in f for f in self.proof_failures) else 0
        cov = {
            "obligations": n_obl, "discharged": n_dis,
            "checker_cmd": checker_cmd or f"cd /verif/lean && lake build DaeVerif.{self.prop}.Props && lake env lean <#audit_namespace DaeVerif.{self.prop}.Props>",
            "trusted_base": self.trusted,
            "theorems": [{"name": n, "axioms": a} for n, a, _ in self.obligations],
            "evaluations": evaluations, "distinct_nontrivial": distinct, "rule": rule,
            "samples": self.samples[:12] or ["<none>"],
            "proof_failures": self.proof_failures,
        }
        cov.update(self.cov)
        if extra_cov:
            cov.update(extra_cov)
        ev = {"property_id": self.prop, "tier": self.tier, "seed": self.seed, "level": level,
              "coverage": cov, "assumptions": self.assumptions,
              "wall_s": round(time.time() - self.t0, 2), "violations": len(self.violations),
              "known_findings_hit": [k for k, _ in self.known_hits]}
        # evidence describes runs against /repo itself; a run against a scratch worktree (VERIF_REPO) must
        # not overwrite it
        ev_dir = os.path.join(VERIF, "evidence") if os.path.realpath(REPO) == "/repo" else os.path.join(CACHE, "evidence-scratch")
        os.makedirs(ev_dir, exist_ok=True)
        json.dump(ev, open(os.path.join(ev_dir, f"{self.prop}.json"), "w"), indent=1, default=str)
        if self.violations:
            seen = set()
            for path, what, no_input in self.violations[:20]:
                if path in seen: continue
                seen.add(path)
                self.say(f"  violation: {what[:300]}")
                line = f"VIOLATION property={self.prop} replay={path}"
                if no_input:
                    line += " no-failing-input-found"
                self.say(line)
            return 1
        if n_obl == 0 or n_dis != n_obl or evaluations <= 0:
            # nothing was proved or nothing was compared (a build that did not run, an empty stream):
            # that is a failure of the check, never a pass
            self.say(f"CHECK-ERROR no verdict: obligations={n_obl} discharged={n_dis} evaluations={evaluations}")
            return 2
        self.say(f"OK property={self.prop} tier={self.tier} seed={self.seed} obligations={n_obl} discharged={n_dis} "
                 f"evaluations={evaluations} distinct={distinct} wall={time.time()-self.t0:.1f}s")
        return 0


def strip_lean_comments(src):
    # remove /- ... -/ (nested) and -- comments and string literals (rough but sufficient)
    out, i, depth, n = [], 0, 0, len(src)
    while i < n:
        if src.startswith("/-", i):
            depth += 1; i += 2; continue
        if depth and src.startswith("-/", i):
            depth -= 1; i += 2; continue
        if depth:
            if src[i] == "\n": out.append("\n")
            i += 1; continue
        if src.startswith("--", i):
            while i < n and src[i] != "\n": i += 1
            continue
        if src[i] == '"':
            i += 1
            while i < n and src[i] != '"':
                if src[i] == "\\": i += 1
                if i < n and src[i] == "\n": out.append("\n")
                i += 1
            i += 1; out.append('""'); continue
        out.append(src[i]); i += 1
    return "".join(out)


def load_known(prop):
    path = os.path.join(VERIF, "known_findings.jsonl")
    res = []
    if os.path.exists(path):
        for l in open(path):
            l = l.strip()
            if not l or l.startswith("#"): continue
            o = json.loads(l)
            if o.get("property") == prop:
                res.append(o)
    return res


def read_lines(path):
    return [l for l in open(path, encoding="utf-8", errors="replace").read().split("\n") if l != ""]


def main_entry(run_fn_by_prop):
    if len(sys.argv) < 3:
        print("usage: check <Cxx> <quick|thorough>"); sys.exit(2)
    prop, tier = sys.argv[1], sys.argv[2]
    seed = int(os.environ.get("VERIF_SEED", "1") or "1")
    ctx = Ctx(prop, tier, seed)
    try:
        rc = run_fn_by_prop(prop)(ctx)
    except subprocess.TimeoutExpired as e:
        ctx.say(f"CHECK-ERROR timeout: {e}")
        rc = 2
    except SystemExit:
        raise
    except BaseException as e:
        # an error of the machinery itself is never a verdict about the code: exit status 1 is
        # reserved for reported violations
        import traceback
        traceback.print_exc()
        ctx.say(f"CHECK-ERROR internal error of the check ({type(e).__name__}: {e}); no verdict")
        rc = 2
    if rc not in (0, 1, 2):
        rc = 2
    sys.exit(rc)
